"""Per-property check definitions (what each stage explores) and the shared confirm/finish logic."""
import json
import os
import sys

import vlib
from vlib import MachineryError, log

REGISTRY = {}
MAX_CONFIRM = 30      # mismatching cases reproduced and re-judged per stage
MAX_REPORT = 10       # VIOLATION lines printed


def prop(pid):
    def deco(fn):
        REGISTRY[pid] = fn
        return fn
    return deco


def tier_n(run, quick, thorough):
    return quick if run.tier == "quick" else thorough


# ------------------------------------------------------------------------------------------------
# the generic "family" flow: record -> validate -> reproduce -> classify
# ------------------------------------------------------------------------------------------------
def judge_events(run, family, module, events_path, label, shards=64, timeout=3600, env=None, race=False):
    """Validate a recorded trace; reproduce and re-judge each mismatching line; file results in run."""
    verdicts, n = run.validate(module, events_path, shards=shards, timeout=timeout, label=label, env=env)
    run.not_ok_lines = {v["l"] for v in verdicts}
    evs = None
    run.evaluations += n
    # coverage accounting straight from the recorded events
    with open(events_path) as f:
        for i, line in enumerate(f):
            e = json.loads(line)
            if e.get("nt"):
                run.hashes.add(e.get("h"))
            if len(run.samples) < 6 and (i % max(1, n // 3) == 0):
                run.samples.append({"family": family, "stage": label, "case": _short(e.get("repro", ""))})
    mism = []
    for v in verdicts:
        c = vlib.classify(v)
        if c == "skip":
            run.skipped += 1
        elif c == "inconclusive":
            run.inconclusive += 1
        else:
            mism.append(v)
    if not mism:
        return
    log("%s/%s: %d mismatching lines, reproducing up to %d" % (family, label, len(mism), MAX_CONFIRM))
    # one representative per (reason-class): prefer variety
    seen = {}
    for v in mism:
        key = v["r"].split(":")[0]
        seen.setdefault(key, []).append(v)
    chosen = []
    while len(chosen) < MAX_CONFIRM and any(seen.values()):
        for k in list(seen):
            if seen[k]:
                chosen.append(seen[k].pop(0))
    want = {v["l"] for v in chosen}
    repro, hang = {}, set()
    with open(events_path) as f:
        for i, line in enumerate(f, 1):
            if i in want:
                e = json.loads(line)
                repro[i] = e["repro"]
                if str(e.get("panic", "")).startswith("hang:"):
                    hang.add(i)
    # a call that does not return costs the whole case timeout again on every confirmation run: two of them are enough
    keep_hang = set(sorted(hang)[:2])
    chosen = [v for v in chosen if v["l"] not in hang or v["l"] in keep_hang]
    confirm(run, family, module, [(v, repro[v["l"]]) for v in chosen], env=env, race=race, shards=shards)


def _short(s, n=400):
    return s if len(s) <= n else s[:n] + "..."


def confirm(run, family, module, items, env=None, race=False, shards=64):
    """items: [(verdict, repro_json_string)].  Re-run each case against the freshly built code and re-judge it with
    TLC; only a reproduced, re-rejected case counts.  A case that does not reproduce is retried (up to three rounds:
    a defect may depend on map iteration order); if nothing reproduces at all the run is a machinery error."""
    known = vlib.load_known(run.prop)
    pending = list(items)
    reproduced = 0
    for attempt in range(3):
        if not pending:
            break
        cases = os.path.join(run.dir, "confirm-cases-%d-%d.ndjson" % (run.tlc_n, attempt))
        with open(cases, "w") as f:
            for _, repro in pending:
                f.write(repro + "\n")
        outs = []
        for k in (1, 2):
            out = os.path.join(run.dir, "confirm-events-%d-%d-%d.ndjson" % (run.tlc_n, attempt, k))
            run.drive(["one", family, "-noearly"], out_path=out, stdin_path=cases, race=race)
            outs.append(out)
        ev1, ev2 = vlib.load_events(outs[0]), vlib.load_events(outs[1])
        if len(ev1) != len(pending) or len(ev2) != len(pending):
            raise MachineryError("driver 'one' returned %d / %d events for %d cases" % (len(ev1), len(ev2), len(pending)))
        verdicts, _ = run.validate(module, outs[0], shards=shards, label="confirm", env=env, count=False)
        bad = {v["l"]: v for v in verdicts if vlib.classify(v) == "mismatch"}
        still = []
        for i, (v0, repro) in enumerate(pending):
            v = bad.get(i + 1)
            if v is None:
                still.append((v0, repro))
                continue
            reproduced += 1
            det = _strip(ev1[i]) == _strip(ev2[i]) and attempt == 0
            reason = v["r"]
            k = vlib.match_known(known, reason, repro)
            rec = {"family": family, "reason": reason, "repro": json.loads(repro), "deterministic": det,
                   "event": {kk: vv for kk, vv in ev1[i].items() if kk not in ("repro", "stack")}}
            if "stack" in ev1[i]:
                rec["stack"] = ev1[i]["stack"][:3000]
            if k:
                run.known.append((k, rec))
            else:
                run.mismatches.append(rec)
        pending = still
    if pending and not reproduced:
        v0, repro = pending[0]
        raise MachineryError("mismatch not reproduced for %s case %s (first verdict %s)" % (family, _short(repro), v0["r"]))
    if pending:
        log("%d of %d mismatching cases did not reproduce in three rounds (counted as unreproduced, not as violations)" % (len(pending), len(items)))
        run.unreproduced = getattr(run, "unreproduced", 0) + len(pending)


def _strip(e):
    return {k: v for k, v in e.items() if k not in ("stack",)}


def finish(run):
    """Print KNOWN-FINDING / VIOLATION lines, write evidence, return the exit code."""
    printed = set()
    for k, rec in run.known:
        key = k.get("key", k.get("what"))
        if key in printed:
            continue
        printed.add(key)
        print("KNOWN-FINDING: property=%s %s" % (run.prop, k.get("what", key)))
    nviol = len(run.mismatches)
    if run.evaluations and run.inconclusive > 0.05 * max(1, run.evaluations):
        raise MachineryError("inconclusive fraction too high: %d of %d" % (run.inconclusive, run.evaluations))
    vlib.write_evidence(run, nviol, extra_cov=getattr(run, "extra_cov", None))
    if nviol:
        for rec in run.mismatches[:MAX_REPORT]:
            p = vlib.write_replay(run.prop, rec["family"], rec["repro"], rec["reason"], rec)
            print("VIOLATION property=%s replay=%s" % (run.prop, p))
            print("  reason=%s case=%s" % (rec["reason"], _short(json.dumps(rec["repro"]), 600)))
        sys.stdout.flush()
        return 1
    print("OK property=%s tier=%s seed=%d states=%d transitions=%d impl_calls_judged=%d distinct_nontrivial=%d skipped=%d inconclusive=%d wall=%.0fs" % (
        run.prop, run.tier, run.seed, run.states, run.transitions, run.traces, len(run.hashes), run.skipped,
        run.inconclusive, __import__("time").time() - run.t0))
    return 0


def record(run, family, n, label=None, race=False, extra=(), timeout=3600, seed_offset=0):
    out = os.path.join(run.dir, "events-%s-%s.ndjson" % (family, label or "rand"))
    run.drive(["record", family, "-seed", run.seed * 1000003 + seed_offset, "-n", n, "-tier", run.tier] + list(extra),
              out_path=out, race=race, timeout=timeout)
    return out


CANARY = {}   # family -> function(event dict) -> corrupted event dict or None if this event cannot be corrupted


def canary(run, family, module, events_path, env=None, skip_lines=()):
    """Binding check: a copy of accepted events with one recorded field corrupted must be rejected by the trace
    specification; otherwise the specification does not constrain the recorded field and the run is void."""
    fn = CANARY.get(family)
    if fn is None:
        return
    out = os.path.join(run.dir, "canary-%s.ndjson" % family)
    n = 0
    with open(events_path) as f, open(out, "w") as g:
        for ln, line in enumerate(f, 1):
            if ln in skip_lines:
                continue    # only events the specification accepted are corrupted
            e = fn(json.loads(line))
            if e is not None:
                g.write(json.dumps(e, separators=(",", ":")) + "\n")
                n += 1
                if n >= 8:
                    break
    if n == 0:
        raise MachineryError("canary: no corruptible event for " + family)
    verdicts, _ = run.validate(module, out, label="canary", env=env, count=False)
    bad = {v["l"] for v in verdicts if vlib.classify(v) == "mismatch"}
    skipped = {v["l"] for v in verdicts if vlib.classify(v) != "mismatch"}
    missing = [i for i in range(1, n + 1) if i not in bad and i not in skipped]
    # every corrupted event should be rejected; one that is accepted touches a field its clause does not judge for that
    # case (a conditional clause). The run is void only if the specification rejected none of them.
    if not bad:
        raise MachineryError("canary: corrupted %s events were accepted by %s (lines %s)" % (family, module, missing))
    run.stages.append({"stage": "canary", "family": family, "corrupted_events_rejected": len(bad),
                       "corrupted_events_not_judged": len(missing)})


def family_random(run, family, module, n, label="random", shards=64, timeout=3600, env=None, extra=()):
    ev = record(run, family, n, label=label, extra=extra)
    judge_events(run, family, module, ev, label, shards=shards, timeout=timeout, env=env)
    if not run.mismatches:
        canary(run, family, module, ev, env=env, skip_lines=getattr(run, "not_ok_lines", ()))


def family_enumerated(run, family, gen_module, trace_module, label="enumerated", gen_cfg=None, shards=64, env=None,
                      timeout=3600, conv=None):
    """(G): cases enumerated by TLC from the reference model are executed by the real code and judged.
    conv(case, index) may add driver-side parameters (e.g. an exact scale) to every enumerated case."""
    cases, n = run.tlc_cases(gen_module, cfg=gen_cfg, env=env, timeout=timeout)
    if n == 0:
        raise MachineryError("no cases enumerated by " + gen_module)
    if conv:
        tmp = cases + ".conv"
        with open(cases) as f, open(tmp, "w") as g:
            for i, line in enumerate(f):
                g.write(json.dumps(conv(json.loads(line), i), separators=(",", ":")) + "\n")
        os.replace(tmp, cases)
    ev = os.path.join(run.dir, "events-%s-%s.ndjson" % (family, label))
    run.drive(["one", family], out_path=ev, stdin_path=cases)
    judge_events(run, family, trace_module, ev, label, shards=shards, timeout=timeout)
    return n


# ------------------------------------------------------------------------------------------------
# replay of a single failing case file
# ------------------------------------------------------------------------------------------------
FAMILY_MODULE = {}


def replay(run, rp):
    family = rp["family"]
    module = FAMILY_MODULE[family]
    v0 = {"r": rp.get("reason", "?")}
    try:
        confirm(run, family, module, [(v0, json.dumps(rp["repro"], separators=(",", ":")))])
    except MachineryError as e:
        if "not reproduced" in str(e):
            print("NOT-REPRODUCED property=%s (%s)" % (run.prop, rp.get("reason")))
            return 0
        raise
    for k, rec in run.known:
        print("KNOWN-FINDING: property=%s %s" % (run.prop, k.get("what")))
    for rec in run.mismatches:
        print("VIOLATION property=%s replay=%s" % (run.prop, vlib.write_replay(run.prop, family, rec["repro"], rec["reason"], rec)))
        print("  reason=%s" % rec["reason"])
    return 1 if run.mismatches else 0


def setup():
    """Build the harness once and parse every specification module (offline)."""
    import glob
    import subprocess
    run = vlib.Run("setup", "quick", 1)
    try:
        run.build()
        bad = 0
        for p in sorted(glob.glob(os.path.join(vlib.SPEC, "*.tla"))):
            r = subprocess.run(["java", "-cp", vlib.TLAJARS, "tla2sany.SANY", os.path.basename(p)], cwd=vlib.SPEC,
                               capture_output=True, text=True)
            if "Semantic errors" in r.stdout or "***Parse Error***" in r.stdout or r.returncode != 0:
                log("SANY failed on", p)
                log(r.stdout[-1500:])
                bad += 1
        log("setup: harness built, %d spec modules with errors" % bad)
        return 2 if bad else 0
    except MachineryError as e:
        log("MACHINERY ERROR:", e)
        return 2
    finally:
        run.cleanup()


# ------------------------------------------------------------------------------------------------
# property definitions
# ------------------------------------------------------------------------------------------------
from propdefs import *  # noqa: E402,F401,F403
