"""What each property's check explores.  One function per property; see DESIGN.md section 5."""
import props
from props import prop, tier_n, family_random, family_enumerated, FAMILY_MODULE, CANARY

import json as _json0
import os as _os0

FAMILY_MODULE.update({
    "relate": "Trace_Relate",
})


def pairs_stage(run, family, module, cfg, conv, label, gen="Gen_Pairs"):
    """(G) small-scope universe: every unordered pair (Gen_Pairs) or every single one (Gen_Shapes) of the shapes
    ShapeUniverse.tla defines on a tiny lattice is turned into one or more cases of a family by conv(case, index),
    executed and judged."""
    src, n = run.tlc_cases(gen, cfg=cfg, out_path=_os0.path.join(run.dir, "cases-pairs-%s-%s.ndjson" % (family, label)))
    if n == 0:
        raise props.MachineryError("no pairs enumerated")
    out = _os0.path.join(run.dir, "cases-%s-%s.ndjson" % (family, label))
    with open(src) as f, open(out, "w") as g:
        for i, line in enumerate(f):
            for c in conv(_json0.loads(line), i):
                g.write(_json0.dumps(c, separators=(",", ":")) + "\n")
    ev = _os0.path.join(run.dir, "events-%s-%s.ndjson" % (family, label))
    run.drive(["one", family], out_path=ev, stdin_path=out)
    props.judge_events(run, family, module, ev, label)


def shapes_stage(run, family, module, conv, label="shapes"):
    pairs_stage(run, family, module, "Gen_Shapes.cfg", conv, label, gen="Gen_Shapes")
    pairs_stage(run, family, module, "Gen_Shapes_holes.cfg", conv, label + "-holes", gen="Gen_Shapes")
    pairs_stage(run, family, module, "Gen_Shapes_holes4.cfg", conv, label + "-holes4", gen="Gen_Shapes")


@prop("C02")
def c02(run):
    run.assumptions += [
        "exact decision on lattices N<=16 and their exact-similarity / general-position images (DESIGN.md 4.4)",
        "TLC, the Json community module and Go's encoding/json are trusted",
    ]
    run.extra_cov = {"rule": "random valid lattice geometries of all 7 types (N in 3..16), every ordered type pair, "
                             "similarity and general-position images; non-trivial = both operands non-empty and not "
                             "disjoint; distinct by hash of the case"}
    run.model_check("MC_DE9IM", timeout=900)
    # the laws of the reference model itself (transpose, predicate consistency, ...) over every pair of a small universe
    run.model_check("MC_Geometry", cfg=tier_n(run, "MC_Geometry.cfg", "MC_Geometry_thorough.cfg"), timeout=3000)
    family_enumerated(run, "relate", "Gen_Matches", "Trace_Relate", gen_cfg=tier_n(run, "Gen_Matches.cfg", "Gen_Matches_full.cfg"))
    pairs_stage(run, "relate", "Trace_Relate", tier_n(run, "Gen_Pairs.cfg", "Gen_Pairs_full.cfg"), lambda c, i: [c], "pairs")
    if run.tier == "thorough":
        pairs_stage(run, "relate", "Trace_Relate", "Gen_Pairs_holes.cfg", lambda c, i: [c], "pairs-holes")
    family_random(run, "relate", "Trace_Relate", tier_n(run, 6000, 400000))

FAMILY_MODULE["valid"] = "Trace_Valid"


@prop("C03")
def c03(run):
    run.assumptions += ["exact decision on lattices N<=16 and exact-similarity images up to |c|<=2^10"]
    run.extra_cov = {"rule": "geometries built without validation on dense lattices (side 3..6, some 8..16): raw/broken rings, "
                             "touching/nested/crossing holes, multipolygons, nested collections, each also in a second "
                             "representation (ring start, direction, hole/member order, similarity); (Multi)LineString "
                             "simplicity; NaN/Inf ordinates. Non-trivial = non-empty; distinct by hash of the case"}
    run.model_check("MC_Geometry", cfg="MC_Geometry.cfg", timeout=900)
    family_enumerated(run, "valid", "Gen_Valid", "Trace_Valid", gen_cfg=tier_n(run, "Gen_Valid.cfg", "Gen_Valid_full.cfg"))
    family_enumerated(run, "valid", "Gen_Holes", "Trace_Valid", label="holes")
    family_enumerated(run, "valid", "Gen_MPoly", "Trace_Valid", label="mpoly", gen_cfg=tier_n(run, "Gen_MPoly.cfg", "Gen_MPoly_full.cfg"))
    family_enumerated(run, "valid", "Gen_Rings", "Trace_Valid", label="rings", gen_cfg=tier_n(run, "Gen_Rings.cfg", "Gen_Rings_full.cfg"))
    shapes_stage(run, "valid", "Trace_Valid", lambda c, i: [{"kind": "geom", "w": c["wa"]}])
    family_random(run, "valid", "Trace_Valid", tier_n(run, 12000, 600000))

FAMILY_MODULE["overlay"] = "Trace_Overlay"


@prop("C01")
def c01(run):
    run.assumptions += [
        "exact decision on lattices N<=6 and their exact-similarity / general-position images (DESIGN.md 4.3-4.4)",
        "result vertex positions are checked to 2^-15 of the lattice unit",
    ]
    run.extra_cov = {"rule": "random valid lattice geometries of all 7 types incl. nested collections with overlapping and empty "
                             "members (N in 3..6), every ordered type pair, 4 binary ops + UnaryUnion + UnionMany, similarity and "
                             "general-position images; non-trivial = both operands and the result non-empty; distinct by case hash"}
    ops = ["union", "inter", "diff", "symdiff"]
    one_op = lambda c, i: [dict(c, op=ops[i % 4])] + ([dict(c, op="dcel")] if i % 5 == 0 else [])
    all_ops = lambda c, i: [dict(c, op=o) for o in ops] + [dict(c, op="dcel")]
    if run.tier == "quick":
        pairs_stage(run, "overlay", "Trace_Overlay", "Gen_Pairs.cfg", one_op, "pairs")
    else:
        pairs_stage(run, "overlay", "Trace_Overlay", "Gen_Pairs.cfg", all_ops, "pairs")
        pairs_stage(run, "overlay", "Trace_Overlay", "Gen_Pairs_holes.cfg", all_ops, "pairs-holes")
        pairs_stage(run, "overlay", "Trace_Overlay", "Gen_Pairs_full.cfg", one_op, "pairs-full")
    family_random(run, "overlay", "Trace_Overlay", tier_n(run, 6000, 300000))

FAMILY_MODULE["dist"] = "Trace_Dist"


@prop("C09")
def c09(run):
    run.assumptions += [
        "exact decision on lattices N<=8 and their exact-similarity / general-position images",
        "distance accuracy is decided to 2^-7 of the lattice unit, not to ulps",
    ]
    run.extra_cov = {"rule": "random valid lattice geometry pairs of all 7 types (N in 3..8) incl. collections, empty members, "
                             "30-60 segment lines (deep R-tree), similarity and general-position images; triples for the triangle "
                             "law; non-trivial = both operands non-empty; distinct by case hash"}
    run.model_check("MC_Geometry", cfg="MC_Geometry.cfg", timeout=900)
    pairs_stage(run, "dist", "Trace_Dist", tier_n(run, "Gen_Pairs.cfg", "Gen_Pairs_full.cfg"), lambda c, i: [dict(c, kind="pair")], "pairs")
    if run.tier == "thorough":
        pairs_stage(run, "dist", "Trace_Dist", "Gen_Pairs_holes.cfg", lambda c, i: [dict(c, kind="pair")], "pairs-holes")
    family_random(run, "dist", "Trace_Dist", tier_n(run, 6000, 300000))


# ---------------------------------------------------------------------------------------------
# canaries: how to corrupt one recorded field of an accepted event so that the spec must reject it
# ---------------------------------------------------------------------------------------------
def _flip_char(m, i):
    return m[:i] + ("0" if m[i] == "F" else "F") + m[i + 1:]


def _canary_relate(e):
    if e.get("kind") == "matches":
        return None
    if e.get("err") or e.get("panic") or len(e["ab"]) != 9:
        return None
    e["ab"] = _flip_char(e["ab"], 4)
    return e


def _canary_valid(e):
    if e["kind"] != "geom":
        return None
    e["valid"] = not e["valid"]
    return e


def _canary_overlay(e):
    if e.get("err") or e.get("panic") or not e["res"]["areas"]:
        return None
    # drop the first polygon of the result
    e["res"]["areas"] = e["res"]["areas"][1:]
    e["rtype"] = "GeometryCollection"
    return e


def _canary_dist(e):
    if e["kind"] != "pair" or not e["a"] or not e["b"]:
        return None
    e["inter"] = not e["inter"]
    return e


CANARY.update({"relate": _canary_relate, "valid": _canary_valid, "overlay": _canary_overlay, "dist": _canary_dist})

FAMILY_MODULE["hull"] = "Trace_Hull"


def _canary_hull(e):
    if e["hull"]["kind"] != "poly" or len(e["hull"]["pts"]) < 5:
        return None
    # drop one hull vertex (keep the ring closed): the hull no longer covers / is not the extreme set
    pts = e["hull"]["pts"]
    e["hull"]["pts"] = [pts[0]] + pts[2:]
    e["hull2"] = e["hull"]
    return e


CANARY["hull"] = _canary_hull


@prop("C13")
def c13(run):
    run.assumptions += ["hull decided exactly on lattices N<=16; rectangles on N<=8 with corners checked to 3/256 of the lattice unit "
                        "and the minimised metric to ~1%"]
    run.extra_cov = {"rule": "random lattice geometries of all types and point multisets (1..200 points, duplicates, collinear "
                             "runs) incl. exact-similarity images; hull, hull of hull, hull of a shuffled duplicated MultiPoint of "
                             "the control points, both rotated rectangles; non-trivial = at least 3 control points"}
    run.model_check("MC_Hull", cfg=tier_n(run, "MC_Hull.cfg", "MC_Hull_thorough.cfg"), timeout=3000)
    shapes_stage(run, "hull", "Trace_Hull", lambda c, i: [dict(c, perm=i * 7919 + 1)])
    family_random(run, "hull", "Trace_Hull", tier_n(run, 8000, 900000))

FAMILY_MODULE["measure"] = "Trace_Measure"


def _canary_measure(e):
    if "kind" in e:  # sliver: a centroid 2e-9 * a off
        e["dxu"] += 3 * 4503599
        return e
    if not e["g"] or e.get("noarea"):
        return None     # nothing recorded, or the area is not judged for this image (a tiny image at a large offset)
    e["area2"] += 1
    return e


CANARY["measure"] = _canary_measure


@prop("C14")
def c14(run):
    run.assumptions += ["exact on lattices N<=16 and exact-similarity images up to 2^10; area compared exactly (2*Area integer), "
                        "length to m/256 over m segments, centroid to 2^-9 of the lattice unit (not 1e-9 relative)"]
    run.extra_cov = {"rule": "random valid lattice geometries of all types, polygons with 0..2 holes, multi-geometries with empty "
                             "members, mixed collections, every ring start/direction/hole order (variants), ForceCW/CCW/Reverse, all "
                             "coordinate types, exact-similarity images, Area with a transform; non-trivial = non-empty"}
    run.model_check("MC_Geometry", cfg="MC_Geometry.cfg", timeout=900)
    shapes_stage(run, "measure", "Trace_Measure", lambda c, i: [dict(c, force=i % 4, ct=(i // 4) % 4, ts=1 + i % 4, tdx=i % 9 - 4, tdy=(i // 3) % 9 - 4)])
    family_random(run, "measure", "Trace_Measure", tier_n(run, 10000, 1200000))

FAMILY_MODULE["boundary"] = "Trace_Boundary"


def _canary_boundary(e):
    if "kind" in e:  # sliver: one ulp outside
        e["xu"] = e["k"] + 1
        return e
    if not e["g"] or e["pos"]["empty"]:
        return None
    e["pos"]["q"] = [-5000, -5000]
    e["pos"]["exact"] = False
    return e


CANARY["boundary"] = _canary_boundary


@prop("C15")
def c15(run):
    run.assumptions += ["exact on lattices N<=16 and exact-similarity images; PointOnSurface decided with a 2^-10 rounding box "
                        "(points nearer than that to a ring are inconclusive, never a violation)"]
    run.extra_cov = {"rule": "random valid lattice geometries of all types; concave/U/comb/sliver polygons, polygons with holes "
                             "touching the shell, closed and self-touching lines, multilinestrings sharing end points 2..5 ways, "
                             "collections with empty members; non-trivial = non-empty"}
    run.model_check("MC_Geometry", cfg="MC_Geometry.cfg", timeout=900)
    shapes_stage(run, "boundary", "Trace_Boundary", lambda c, i: [c])
    family_random(run, "boundary", "Trace_Boundary", tier_n(run, 10000, 1200000))

FAMILY_MODULE["rtree"] = "Trace_RTree"


def _canary_rtree(e):
    # repeat a callback: the spec has no step for a record visited twice
    for k, x in enumerate(e["evs"]):
        if x["e"] == "Cb" and x["ret"] == "cont":
            e["evs"].insert(k + 1, dict(x))
            return e
    return None


CANARY["rtree"] = _canary_rtree


@prop("C11")
def c11(run):
    run.assumptions += ["integer boxes with ordinates < 2^14 so that squared distances fit TLC integers",
                        "the node structure is read through the verif hook rtree.VerifDump"]
    run.extra_cov = {"rule": "one case = one history: bulk load (sizes 0..40 round-robin plus 41..5000) of 7 layouts (general, points, "
                             "segments, duplicates/identical centres, collinear, clustered, heavy overlap), then range and priority "
                             "searches with a scripted callback answering Stop / wrapped Stop / error at every visit position for small "
                             "trees, and Nearest calls; non-trivial = more than 4 items"}
    run.model_check("MC_RTree", cfg=tier_n(run, "MC_RTree.cfg", "MC_RTree_thorough.cfg"), timeout=3000, heap="24g")
    family_random(run, "rtree", "Trace_RTree", tier_n(run, 400, 15000))

FAMILY_MODULE["twkb"] = "Trace_TWKB"


def _canary_twkb(e):
    if e["kind"] != "enc" or e["err"] or len(e["bytes"]) < 4:
        return None
    e["bytes"][-1] = (e["bytes"][-1] + 2) % 128
    return e


CANARY["twkb"] = _canary_twkb


@prop("C07")
def c07(run):
    run.assumptions += ["TLC side bounds |k*10^(p-q)| < 2^27 (the property allows 2^40); larger ordinates are not exercised",
                        "decimal ties may round either way in binary floating point (both accepted)"]
    run.extra_cov = {"rule": "random trees of all 7 types x 4 coordinate types, empty members, nested collections, ordinates k/10^q, "
                             "XY precision -8..7, Z/M precision 0..7, every subset of {size, bbox, closed rings, ids}; plus every "
                             "encoding written by the specification's writer for the MC_TWKB family; non-trivial = non-empty"}
    run.model_check("MC_TWKB", cfg=tier_n(run, "MC_TWKB.cfg", "MC_TWKB_thorough.cfg"), timeout=3600)
    family_enumerated(run, "twkb", "Gen_TWKB", "Trace_TWKB", gen_cfg=tier_n(run, "Gen_TWKB.cfg", "Gen_TWKB_full.cfg"))
    family_random(run, "twkb", "Trace_TWKB", tier_n(run, 8000, 300000))

FAMILY_MODULE["wkb"] = "Trace_WKB"


def _canary_wkb(e):
    if e["kind"] != "enc" or len(e["bytes"]) < 22:
        return None
    e["bytes"][-1] ^= 1
    return e


CANARY["wkb"] = _canary_wkb


@prop("C04")
def c04(run):
    run.assumptions += ["IEEE bits <-> float64 is trusted to math.Float64bits; ordinates are opaque 8-byte tokens in the specification"]
    run.extra_cov = {"rule": "random trees of the 7 types x 4 coordinate types, empty members at every position, nesting to depth 4, "
                             "ordinates from all float64 classes (subnormal, +-0, max, 17-digit, NaN payloads and Inf in Z/M); plus "
                             "every encoding (all per-element byte orders) the specification's writer produces for its family; "
                             "non-trivial = non-empty"}
    run.model_check("MC_WKB", timeout=1800)
    family_enumerated(run, "wkb", "Gen_WKB", "Trace_WKB", gen_cfg=tier_n(run, "Gen_WKB.cfg", "Gen_WKB_full.cfg"))
    family_random(run, "wkb", "Trace_WKB", tier_n(run, 4000, 600000))

FAMILY_MODULE["wkt"] = "Trace_WKT"


def _canary_wkt(e):
    if e["kind"] != "text" or len(e["toks"]) < 4:
        return None
    # drop the last closing parenthesis
    for k in range(len(e["toks"]) - 1, -1, -1):
        if e["toks"][k] == ")":
            del e["toks"][k]
            return e
    return None


CANARY["wkt"] = _canary_wkt


@prop("C05")
def c05(run):
    run.assumptions += ["number text <-> float64 is trusted to strconv.ParseFloat (driver tokeniser); 'shortest' formatting is not "
                        "decided, only round-trip exactness and absence of exponent form"]
    run.extra_cov = {"rule": "random trees of the 7 types x 4 coordinate types with empty members, nested collections, zero values "
                             "of the 8 Go types, ordinates over all finite float64 classes; plus re-spelt texts enumerated by TLC "
                             "(keyword case x numerals x bare MultiPoint members x whitespace kinds x tight punctuation x trailing "
                             "tokens); non-trivial = non-empty"}
    run.model_check("MC_WKT", timeout=1800)
    family_enumerated(run, "wkt", "Gen_WKT", "Trace_WKT", gen_cfg=tier_n(run, "Gen_WKT.cfg", "Gen_WKT_full.cfg"))
    family_random(run, "wkt", "Trace_WKT", tier_n(run, 4000, 600000))

FAMILY_MODULE["geojson"] = "Trace_GeoJSON"


def _canary_geojson(e):
    if e["kind"] != "enc" or e["err"] or not e["jsonvalid"]:
        return None
    e["doc"]["keys"] = e["doc"]["keys"] + ["zz"]
    return e


CANARY["geojson"] = _canary_geojson


@prop("C06")
def c06(run):
    run.assumptions += ["JSON number text <-> float64 is trusted to strconv / encoding/json; TLC's own JSON parser re-reads the raw "
                        "output only on the small-integer sub-domain (its Json module truncates non-integers)"]
    run.extra_cov = {"rule": "random trees of the 7 types x 4 coordinate types with empty members and nested collections, ordinates "
                             "over finite float64 classes; documents enumerated by TLC from a grammar (position lengths 0..5 x 14 "
                             "document shapes incl. unknown types, missing members, nulls); features with ids / properties / foreign "
                             "members; non-trivial = non-empty"}
    run.model_check("MC_GeoJSON", timeout=600)
    family_enumerated(run, "geojson", "Gen_GeoJSON", "Trace_GeoJSON")
    family_random(run, "geojson", "Trace_GeoJSON", tier_n(run, 4000, 600000))

FAMILY_MODULE["decode"] = "Trace_Decode"


def _canary_decode(e):
    e["outcome"] = "crash"
    return e


CANARY["decode"] = _canary_decode


@prop("C08")
def c08(run):
    run.assumptions += ["worker processes run with a 3 GiB address-space limit and a 20 s timeout per input; allocation is measured "
                        "with runtime.MemStats.TotalAlloc around the decoder calls; coverage-guided fuzzing is not used (another "
                        "technique family): exploration is grammar- and corruption-directed"]
    run.extra_cov = {"rule": "inputs up to 64 KiB for WKB / TWKB / WKT / GeoJSON decoders and adapters: every truncation and every "
                             "4-byte count overwrite (0, 1, 2^31-1, 2^31, 2^32-1) and varint overwrite (2^31..2^64-1) at every offset of "
                             "small corpus entries, random mutations (byte substitution, count/varint overwrite, delete, duplicate, "
                             "splice, token insertion) of a corpus of valid encodings of every type, arbitrary bytes, deep nesting; plus "
                             "TLC-enumerated corruptions of the specification's WKB encodings; non-trivial = every input"}
    family_enumerated(run, "decode", "Gen_Corrupt", "Trace_Decode", gen_cfg=tier_n(run, "Gen_Corrupt.cfg", "Gen_Corrupt_full.cfg"))
    # grammar-generated inputs of the other formats: the documents / texts / encodings enumerated for C06, C05, C07
    for gen, cfg, fmt, field in (("Gen_GeoJSON", None, "geojson", "text"), ("Gen_WKT", tier_n(run, "Gen_WKT.cfg", "Gen_WKT_full.cfg"), "wkt", "text"),
                                 ("Gen_TWKB", tier_n(run, "Gen_TWKB.cfg", "Gen_TWKB_full.cfg"), "twkb", "bytes")):
        src, n = run.tlc_cases(gen, cfg=cfg, out_path=_os.path.join(run.dir, "cases-%s-for-decode.ndjson" % gen))
        conv = _os.path.join(run.dir, "decode-cases-%s.ndjson" % gen)
        with open(src) as f, open(conv, "w") as g:
            for line in f:
                c = _json.loads(line)
                d = {"fmt": fmt}
                if field == "text":
                    d["text"] = c["text"].replace('"NULL"', "null")
                else:
                    d["bytes"] = c["bytes"]
                g.write(_json.dumps(d, separators=(",", ":")) + "\n")
        ev = _os.path.join(run.dir, "events-decode-%s.ndjson" % gen)
        run.drive(["one", "decode"], out_path=ev, stdin_path=conv)
        props.judge_events(run, "decode", "Trace_Decode", ev, "grammar:" + gen)
    family_random(run, "decode", "Trace_Decode", tier_n(run, 12000, 400000))

FAMILY_MODULE["envelope"] = "Trace_Envelope"


def _canary_envelope(e):
    if e["kind"] != "geom" or not e["env"]:
        return None
    e["env"][2] += 1
    return e


CANARY["envelope"] = _canary_envelope


@prop("C12")
def c12(run):
    run.assumptions += ["integer ordinates (envelope arithmetic is exact); the Union envelope is compared only when its corners are integers"]
    run.extra_cov = {"rule": "every pair (quick: lattice 0..3, 101 envelopes) / triple (thorough: lattice 0..2) of envelopes incl. the "
                             "empty one, degenerate point / horizontal / vertical ones, through every Envelope method; random lattice "
                             "geometries of every type with empty members: Envelope(), six re-representations, members, Union"}
    run.model_check("MC_Envelope", cfg=tier_n(run, "MC_Envelope.cfg", "MC_Envelope_thorough.cfg"), timeout=1800)
    # every enumerated pair / triple at one of four exact scales (1, 2^-30, 2^-10, 2^20): interval arithmetic does not
    # depend on the unit, so the specification's integers are the same
    family_enumerated(run, "envelope", "Gen_Envelope", "Trace_Envelope", gen_cfg=tier_n(run, "Gen_Envelope.cfg", "Gen_Envelope_thorough.cfg"),
                      conv=lambda c, i: dict(c, se=[0, -30, -10, 20][i % 4]))
    run.exhaustive = True
    shapes_stage(run, "envelope", "Trace_Envelope", lambda c, i: [{"kind": "geom", "wa": c["wa"], "wb": "POINT(1 1)"}])
    family_random(run, "envelope", "Trace_Envelope", tier_n(run, 5000, 600000))

FAMILY_MODULE["struct"] = "Trace_StructOps"


def _canary_struct(e):
    for st in e["steps"]:
        if st["cts"]:
            st["cts"] = st["cts"] + ["XYZM" if st["got"]["ct"] != "XYZM" else "XY"]
            return e
    return None


CANARY["struct"] = _canary_struct


@prop("C16")
def c16(run):
    run.assumptions += ["vertex payloads are opaque tokens; SnapToGrid(0) and Densify(1e12) are used as structure-preserving no-ops "
                        "on integer ordinates; XY-only operations are observed only when they return without error"]
    run.extra_cov = {"rule": "every transition (start geometry of every type x coordinate type incl. empties, action, argument) of the "
                             "bounded state graph as a one-step history; random histories of 1..12 operations (Force*, Reverse, "
                             "TransformXY, AsMulti*, constructors with members of other coordinate types, SnapToGrid, Densify, WKB/WKT "
                             "round trip, ForceCW/CCW), each step read back through every accessor, Dump, DumpCoordinates and the "
                             "XY-only operations"}
    run.model_check("MC_StructOps", cfg=tier_n(run, "MC_StructOps.cfg", "MC_StructOps_thorough.cfg"), timeout=3000)
    family_enumerated(run, "struct", "Gen_StructOps", "Trace_StructOps", gen_cfg=tier_n(run, "Gen_StructOps.cfg", "Gen_StructOps_thorough.cfg"))
    family_random(run, "struct", "Trace_StructOps", tier_n(run, 1500, 200000))

FAMILY_MODULE["equal"] = "Trace_Equality"


def _canary_equal(e):
    if e["kind"] not in ("pair", "curve"):
        return None
    e["eqio"] = not e["eqio"]
    e["eqiorev"] = e["eqio"]
    return e


CANARY["equal"] = _canary_equal


@prop("C18")
def c18(run):
    run.assumptions += ["closed LineStrings in the opaque-token families are simple (rings), so 'closed' decides whether rotation is ignored there; "
                        "closed non-simple curves are covered by kind 'curve' on integer vertices where simplicity is decided exactly; "
                        "ToleranceXY is decided on integer vertices (t^2 integer)"]
    run.extra_cov = {"rule": "every (base, variant) pair of the TLC family (reorderings: all member / hole permutations incl. duplicate "
                             "members, ring rotations and reversals, line reversal; single differences: one ordinate by one ulp at "
                             "magnitudes subnormal..1e300, one member dropped or emptied, coordinate type, Point vs MultiPoint); random "
                             "pairs (same / reordered / reordered + one ulp / one ulp) over all float classes; ToleranceXY pairs"}
    run.model_check("MC_Equality", timeout=1800)
    family_enumerated(run, "equal", "Gen_Equality", "Trace_Equality")
    family_random(run, "equal", "Trace_Equality", tier_n(run, 6000, 1000000))

FAMILY_MODULE["linear"] = "Trace_Linear"


def _canary_linear(e):
    if e["kind"] == "interp" and not e["empty"] and e["finite"] and len(e["line"]) > 1:
        e["q"][0] += 40
        return e
    return None


CANARY["linear"] = _canary_linear


@prop("C17")
def c17(run):
    run.assumptions += ["interpolation decided on lattice lines with integer segment lengths (rational arc length) to 2^-9 of the unit; "
                        "Simplify exact (rational threshold); Densify to 2/256 of the unit on lattices <= 8; SnapToGrid oddness / "
                        "idempotence / finiteness as bit relations over the full range, the half-step bound only for 3-digit decimals"]
    run.extra_cov = {"rule": "InterpolatePoint at fractions in [-1,2] incl. 0, 1 and breakpoints on paths with repeated vertices at the "
                             "start / middle / end and closed paths, all coordinate types; InterpolateEvenlySpacedPoints n in -2..50; "
                             "Simplify thresholds 0..diameter on lattice lines and rings; Densify distances up to 10 x the side; "
                             "SnapToGrid decimal places -320..320 on ordinates up to +-1.8e308 and random bit patterns; Reverse and "
                             "ForceCW/CCW on lattice geometries of every type"}
    shapes_stage(run, "linear", "Trace_Linear", lambda c, i: [{"kind": "orient", "w": c["wa"], "ct": i % 4}])

    def lin(c, i):
        """every line of the small-scope universe, also with a repeated first / middle / last vertex, through Densify
        and Simplify with a rotating choice of parameters (all of them on the thorough tier)"""
        w = c["wa"]
        if not w.startswith("LINESTRING("):
            return []
        pts = [[int(v) for v in p.split()] for p in w[len("LINESTRING("):-1].split(",")]
        variants = [pts, [pts[0]] + pts, pts[:1] + [pts[1], pts[1]] + pts[2:], pts + [pts[-1]]]
        dens = [(1, 2), (1, 1), (3, 2), (5, 1)]
        simp = [(0, 1), (1, 2), (1, 1), (2, 1)]
        out = []
        for v, line in enumerate(variants):
            ks = range(4) if run.tier == "thorough" else [(i + v) % 4]
            for k in ks:
                out.append({"kind": "densify", "line": line, "dn": dens[k][0], "dd": dens[k][1], "ct": (i + k) % 4})
                out.append({"kind": "simplify", "line": line, "tn": simp[k][0], "td": simp[k][1], "ring": line[0] == line[-1] and len(line) >= 4 and k % 2 == 0, "ct": (i + v) % 4})
        return out
    pairs_stage(run, "linear", "Trace_Linear", "Gen_Shapes.cfg", lin, "lines", gen="Gen_Shapes")
    family_random(run, "linear", "Trace_Linear", tier_n(run, 16000, 1500000))

FAMILY_MODULE["empty"] = "Trace_Empties"


def _canary_empty(e):
    if e["kind"] != "hist" or len(e["steps"]) < 2 or e["steps"][1]["panic"]:
        return None
    e["steps"][1]["obs"][2] = "3ff0000000000000" if e["steps"][1]["obs"][2] != "3ff0000000000000" else "4000000000000000"
    return e


CANARY["empty"] = _canary_empty


@prop("C20")
def c20(run):
    run.assumptions += ["public methods are enumerated by reflection over the method sets of Geometry and the seven concrete types "
                        "(MustAs*, Scan, UnmarshalJSON excluded: documented panics / covered by C04, C06, C08); set-operation results "
                        "are compared as point sets with the library's Equals"]
    run.extra_cov = {"rule": "every all-empty shape to depth 2 (typed empties x 4 coordinate types, Multi* of empty members, collections "
                             "of 1..3 empties of mixed types, nested) x every public method and 24 free functions in both argument "
                             "positions against 7 partners; the zero Geometry against the empty GeometryCollection; histories of a "
                             "non-empty lattice geometry with 1..5 InsertEmpty / RemoveEmpty steps and a 25-entry observation vector "
                             "(predicates, DE-9IM both ways, measures, envelope, hull, distance, set-operation point sets)"}
    family_enumerated(run, "empty", "Gen_Empties", "Trace_Empties")
    family_random(run, "empty", "Trace_Empties", tier_n(run, 1200, 150000))

FAMILY_MODULE["purity"] = "Trace_Purity"

import json as _json
import os as _os
import vlib as _vlib
from vlib import MachineryError as _ME


def _purity_round(run, cases_path, tag):
    """Execute the cases in two fresh race-detector processes and join each pair of histories with a Restart event."""
    outs = []
    for k in ("a", "b"):
        out = _os.path.join(run.dir, "purity-%s-%s.ndjson" % (tag, k))
        logp = _os.path.join(run.dir, "race-%s-%s" % (tag, k))
        run.drive(["one", "purity"], out_path=out, stdin_path=cases_path, race=True,
                  env={"GORACE": "log_path=%s exitcode=0 halt_on_error=0" % logp})
        outs.append(out)
    ea, eb = _vlib.load_events(outs[0]), _vlib.load_events(outs[1])
    if len(ea) != len(eb):
        raise _ME("purity: the two processes produced different numbers of histories")
    joined = _os.path.join(run.dir, "purity-%s-joined.ndjson" % tag)
    with open(joined, "w") as f:
        for x, y in zip(ea, eb):
            x["evs"] = x["evs"] + [{"e": "Restart"}] + y["evs"]
            f.write(_json.dumps(x, separators=(",", ":")) + "\n")
    return joined, ea


def _canary_purity(e):
    for x in e["evs"]:
        if x["e"] == "End":
            x["post"] = [x["post"][0][:-1] + ("0" if x["post"][0][-1] != "0" else "1"), x["post"][1]]
            return e
    return None


CANARY["purity"] = _canary_purity


@prop("C10")
def c10(run):
    run.assumptions += ["schedule coverage is what the Go scheduler and the race detector observe (the library has no synchronisation "
                        "to gate); digests are SHA-256 prefixes of WKB+WKT / result renderings; the recorder does not synchronise the "
                        "goroutines it observes (per-goroutine buffers merged after Wait)"]
    run.extra_cov = {"rule": "histories of 2, 3, 4, 8, 16 goroutines x 60 calls over 5..8 shared lattice geometries (incl. XYZM) and a "
                             "shared bulk-loaded R-tree, 31 operations of the public read API (codecs, validation, predicates, set "
                             "operations, hull, distance, simplification, transforms, R-tree searches), built with -race; every "
                             "history is executed by two fresh processes and joined (map iteration order differs per process and per "
                             "range), so results must be functions of the operand digests across goroutines and processes"}
    run.model_check("MC_Purity", timeout=1800)
    n = tier_n(run, 40, 1500)
    # generate the cases once (record mode of a non-race build only to obtain the repro strings would execute them; use Gen via record and keep repro)
    seedfile = _os.path.join(run.dir, "purity-cases.ndjson")
    import random
    rnd = random.Random(run.seed * 7919 + 13)
    with open(seedfile, "w") as f:
        for i in range(n):
            f.write(_json.dumps({"seed": rnd.getrandbits(62), "threads": [2, 3, 4, 8, 16][i % 5], "calls": 60,
                                 "nvals": 5 + rnd.randrange(4)}, separators=(",", ":")) + "\n")
        for i in range(2 + n // 4):     # large sizes: two of the shared values have many members or many vertices
            f.write(_json.dumps({"seed": rnd.getrandbits(62), "threads": [2, 4, 8][i % 3], "calls": 40,
                                 "nvals": 4 + rnd.randrange(3), "big": True}, separators=(",", ":")) + "\n")
    joined, evs = _purity_round(run, seedfile, "r1")
    verdicts, nh = run.validate("Trace_Purity", joined, label="two-process histories")
    run.evaluations += sum(len(e["evs"]) for e in evs) * 2
    run.traces += sum(len(e["evs"]) for e in evs) * 2 - nh     # recorded Begin/End events judged, not histories
    for e in evs:
        run.hashes.add(e["h"])
    run.samples.append({"family": "purity", "case": evs[0]["repro"], "first_events": evs[0]["evs"][:4]})
    bad = [v for v in verdicts if _vlib.classify(v) == "mismatch"]
    if bad:
        # reproduce: run the offending histories again in two fresh processes
        lines = sorted({v["l"] for v in bad})[:10]
        again = _os.path.join(run.dir, "purity-again.ndjson")
        with open(again, "w") as f:
            for l in lines:
                f.write(evs[l - 1]["repro"] + "\n")
        found = False
        for attempt in range(8):    # nondeterminism may need several repetitions to show again (each costs a second)
            joined2, evs2 = _purity_round(run, again, "r2-%d" % attempt)
            v2, _ = run.validate("Trace_Purity", joined2, label="confirm", count=False)
            bad2 = {v["l"]: v for v in v2 if _vlib.classify(v) == "mismatch"}
            for idx, v in bad2.items():
                found = True
                run.mismatches.append({"family": "purity", "reason": v["r"], "repro": _json.loads(evs2[idx - 1]["repro"]),
                                       "deterministic": False, "event": {"i": v.get("i")}})
            if found:
                break
        if not found:
            raise _ME("purity mismatch not reproduced in eight rounds: %s" % bad[:3])
    else:
        props.canary(run, "purity", "Trace_Purity", joined)
