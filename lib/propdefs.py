"""What each property's check explores.  One function per property; see DESIGN.md section 5."""
import props
from props import prop, tier_n, family_random, family_enumerated, FAMILY_MODULE

FAMILY_MODULE.update({
    "relate": "Trace_Relate",
})


@prop("C02")
def c02(run):
    run.assumptions += [
        "exact decision on lattices N<=16 and their exact-similarity / general-position images (DESIGN.md 4.4)",
        "TLC, the Json community module and Go's encoding/json are trusted",
    ]
    run.extra_cov = {"rule": "random valid lattice geometries of all 7 types (N in 3..16), every ordered type pair, "
                             "similarity and general-position images; non-trivial = both operands non-empty and not "
                             "disjoint; distinct by hash of the case"}
    run.model_check("MC_DE9IM", timeout=900)
    family_random(run, "relate", "Trace_Relate", tier_n(run, 6000, 400000))
