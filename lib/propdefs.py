"""What each property's check explores.  One function per property; see DESIGN.md section 5."""
import props
from props import prop, tier_n, family_random, family_enumerated, FAMILY_MODULE

FAMILY_MODULE.update({
    "relate": "Trace_Relate",
})


@prop("C02")
def c02(run):
    run.assumptions += [
        "exact decision on lattices N<=16 and their exact-similarity / general-position images (DESIGN.md 4.4)",
        "TLC, the Json community module and Go's encoding/json are trusted",
    ]
    run.extra_cov = {"rule": "random valid lattice geometries of all 7 types (N in 3..16), every ordered type pair, "
                             "similarity and general-position images; non-trivial = both operands non-empty and not "
                             "disjoint; distinct by hash of the case"}
    run.model_check("MC_DE9IM", timeout=900)
    family_random(run, "relate", "Trace_Relate", tier_n(run, 6000, 400000))

FAMILY_MODULE["valid"] = "Trace_Valid"


@prop("C03")
def c03(run):
    run.assumptions += ["exact decision on lattices N<=16 and exact-similarity images up to |c|<=2^10"]
    run.extra_cov = {"rule": "geometries built without validation on dense lattices (side 3..6, some 8..16): raw/broken rings, "
                             "touching/nested/crossing holes, multipolygons, nested collections, each also in a second "
                             "representation (ring start, direction, hole/member order, similarity); (Multi)LineString "
                             "simplicity; NaN/Inf ordinates. Non-trivial = non-empty; distinct by hash of the case"}
    family_enumerated(run, "valid", "Gen_Valid", "Trace_Valid", gen_cfg=tier_n(run, "Gen_Valid.cfg", "Gen_Valid_full.cfg"))
    family_random(run, "valid", "Trace_Valid", tier_n(run, 12000, 600000))

FAMILY_MODULE["overlay"] = "Trace_Overlay"


@prop("C01")
def c01(run):
    run.assumptions += [
        "exact decision on lattices N<=6 and their exact-similarity / general-position images (DESIGN.md 4.3-4.4)",
        "result vertex positions are checked to 2^-15 of the lattice unit",
    ]
    run.extra_cov = {"rule": "random valid lattice geometries of all 7 types incl. nested collections with overlapping and empty "
                             "members (N in 3..6), every ordered type pair, 4 binary ops + UnaryUnion + UnionMany, similarity and "
                             "general-position images; non-trivial = both operands and the result non-empty; distinct by case hash"}
    family_random(run, "overlay", "Trace_Overlay", tier_n(run, 6000, 300000))
