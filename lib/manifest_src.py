HOOK_COMMITS = ["3190446", "4e60262"]
NOTES = ("All checks: bin/check <id> --tier quick|thorough (env VERIF_SEED). Exit 0 held / 1 violation / 2 machinery error. "
         "Known findings: /verif/known_findings.jsonl. Design: /verif/DESIGN.md.")
NOT_APPLICABLE = {
    "C19": "map projections are real-analytic closed forms (sin/tan/ln/pow/atan in float64, Jacobians to 1e-9 degrees): TLA+/TLC has no "
           "reals, floats or transcendental functions and there is no state/transition structure to specify (DESIGN.md section 6)",
}
TLCNOTE = "Trusted: TLC 1.8, the Json/IOUtils community modules, Go's encoding/json and the driver's flattening of geometries. "
CHECKS = {
    "C02": {
        "text": "The DE-9IM matrix is defined in TLA+ (DE9IM.tla) from the cells of the exact arrangement on an integer lattice; TLC "
                "model-checks the predicate patterns over all 4^9 matrices and validates every recorded Relate/predicate call of the real "
                "library (thousands of dense-lattice pairs per run, all type pairs, similarity and general-position images) against that "
                "definition, line by line.",
        "note": TLCNOTE + "Exact decision only on lattices N<=16 and their exact-similarity / general-position images; collections only "
                "with pairwise disjoint members (guard evaluated by the specification).",
        "technique": "TLA+ definitional DE-9IM oracle; TLC exhaustive check of predicate table + TLC trace validation of recorded calls",
    },
    "C03": {
        "text": "OGC validity is defined in TLA+ (Validity.tla: exact ring interaction, Euler-formula connectedness, DE-9IM for "
                "multipolygon members); TLC enumerates a complete family of two-hole polygons (every lattice triangle x outer-hole shape x "
                "ring rotation/direction/order) and validates every recorded Validate()/decoder/IsSimple call of the real library on those "
                "and on tens of thousands of random unvalidated dense-lattice geometries against the definition.",
        "note": TLCNOTE + "Exact decision on lattices N<=16 and exact-similarity images; NaN/Inf handled as ordinate classes.",
        "technique": "TLA+ definitional validity oracle; TLC-enumerated polygon family replayed into Validate + TLC trace validation",
    },
    "C01": {
        "text": "The closure of the Boolean combination is defined in TLA+ (Overlay.tla) cell by cell on the exact arrangement of the "
                "operands (every vertex, every edge midpoint, both faces beside every edge); TLC validates every recorded "
                "Union/Intersection/Difference/SymmetricDifference/UnaryUnion/UnionMany result of the real library (lifted from floats to "
                "arrangement vertices) against that definition, plus canonical shape, no error and validity.",
        "note": TLCNOTE + "Pipeline state: one case in six exports the real DCEL through the verif hook geom.VerifOverlayDump and DCEL.tla "
                "checks its structural invariants (twin/next/prev, face cycles, Euler, label closure) and re-derives every face label "
                "that has a straight lattice edge. Exact decision on lattices N<=6 and their exact-similarity / general-position images; result vertices "
                "checked to 2^-15; ambiguous lifts are inconclusive, never guessed.",
        "technique": "TLA+ set-theoretic overlay oracle on the exact arrangement; TLC trace validation of recorded set-operation results",
    },
    "C09": {
        "text": "Intersects is defined as non-disjointness of the definitional DE-9IM matrix and the distance as the exact rational minimum "
                "over all point/segment pairs (Distance.tla); TLC validates every recorded Intersects/Disjoint/Intersection/Distance call "
                "(both argument orders, all type pairs, collections, long lines, similarity and general-position images, triangle-law "
                "triples) against those definitions.",
        "note": TLCNOTE + "Exact decision on lattices N<=8 and images; distance accuracy decided to 2^-7 of the lattice unit (not ulps).",
        "technique": "TLA+ exact intersects/squared-distance oracle; TLC trace validation of recorded calls",
    },
    "C13": {
        "text": "Hull.tla defines the convex hull (extreme points; strict convexity, covering, vertices are control points) and the "
                "monotone-chain stack machine; TLC proves machine = definition on all point sets of a 4x4 lattice up to the bound, and "
                "validates every recorded ConvexHull / hull-of-hull / permuted-multiset hull / rotated minimum area and width rectangle "
                "of the real library against the definition and the exact rational minimum over hull edges.",
        "note": TLCNOTE + "Hull exact on N<=16, rectangles on N<=8 (corners to 3/256 unit, metric to ~1%).",
        "technique": "TLA+ hull definition + monotone-chain reference machine (TLC exhaustive) + TLC trace validation of recorded hulls/rectangles",
    },
    "C14": {
        "text": "Measures.tla defines 2*Area (integer shoelace with the sign convention), integer-square-root bounds for Length and the "
                "exact rational centroid of the highest-dimensional non-empty part; TLC validates every recorded Area / signed Area / "
                "Area-with-transform / Length / Centroid of the real library against them, over every representation variant "
                "(ring start, direction, hole and member order, ForceCW/CCW, Reverse, coordinate type) and exact-similarity images.",
        "note": TLCNOTE + "Area exact, length to m/256, centroid to 2^-9 of the lattice unit on N<=16 (the property's 1e-9 relative "
                "accuracy is not decidable with TLC integers).",
        "technique": "TLA+ exact measures oracle (integer/rational arithmetic); TLC trace validation of recorded measures",
    },
    "C15": {
        "text": "The boundary is defined in TLA+ as the set of points the DE-9IM location function puts on the boundary (mod-2 end points "
                "per member, rings of polygons); TLC validates every recorded Boundary / Boundary-of-Boundary / PointOnSurface / Dimension "
                "/ IsEmpty of the real library against it (PointOnSurface: exact location of the returned point, strict interior for areal "
                "geometries, highest-dimension member for collections).",
        "note": TLCNOTE + "Exact on lattices N<=16 and exact-similarity images; points within 2^-10 of a ring are inconclusive.",
        "technique": "TLA+ interior/boundary location oracle; TLC trace validation of recorded Boundary/PointOnSurface calls",
    },
    "C11": {
        "text": "RTree.tla is a step-machine model of the bulk-loaded R-tree (every partition the documented rule allows, depth-first "
                "range search, best-first priority search, nondeterministic callback answers); TLC checks TreeInv, NoRevisit, OnlyHits, "
                "PrioOrder, Complete and StopIsFinal in every reachable state of the bounded model, and validates recorded histories of "
                "the real rtree package (Load with the node structure exported by the verif hook, Start/Cb/Ret per search, Nearest) event "
                "by event: a callback after Stop, a revisit, a miss, a wrong order or return value has no enabled step.",
        "note": TLCNOTE + "Model bound: 5 box shapes, 4 queries, <=4 (quick) / <=5 (thorough) items; histories: sizes 0..40 round-robin "
                "and up to 5000, integer boxes < 2^14. Hook: rtree.VerifDump (build tag verif).",
        "technique": "TLA+ step-machine model checked exhaustively by TLC + TLC trace validation of recorded search histories (state variables per history)",
    },
    "C07": {
        "text": "TWKB.tla is a reader and a writer for the TWKB format written from the format specification (varint / zig-zag / delta "
                "coding with a running reference point, headers, sub-geometries); TLC proves reader(writer(g,opts)) = g with truthful "
                "size/bbox/id headers for a family of small geometries x all option subsets; the specification's encodings are replayed "
                "into the real UnmarshalTWKB, and every recorded MarshalTWKB output of the real library is read by the specification's "
                "reader and must give the original rounded to the precision, truthful headers, and agree with the library's own decode "
                "and header-only readers.",
        "note": TLCNOTE + "TLC side bounds |k*10^(p-q)| < 2^27 (property: 2^40); decimal ties may round either way; cases where "
                "rounding collapses a ring are outside the property's domain and skipped by a guard in the specification.",
        "technique": "TLA+ reference reader/writer machines (TLC exhaustive round trip) + TLC-generated encodings replayed + TLC trace validation of recorded encodings",
    },
    "C04": {
        "text": "WKB.tla is a recursive-descent reader and a writer for WKB over byte sequences with opaque 8-byte ordinate tokens and a "
                "byte order per element; TLC proves reader(writer(g, orders)) = g, trailing bytes ignored and every strict prefix rejected "
                "without reading past the end, for a family of geometries x all byte-order assignments; the specification's encodings "
                "(big-endian and mixed, which the library never writes) are replayed into the real UnmarshalWKB, and the bytes recorded "
                "from the real AsBinary/AppendWKB/Value are read by the specification's reader and must give exactly the geometry built; "
                "re-encode, trailing bytes and Scan of all eight Go types are logged and judged.",
        "note": TLCNOTE + "Float bits <-> float64 trusted to math.Float64bits.",
        "technique": "TLA+ reference WKB reader/writer (TLC exhaustive) + TLC-generated encodings replayed + TLC trace validation of recorded encodings",
    },
    "C05": {
        "text": "WKT.tla is a token-level printer and recursive-descent parser for the OGC WKT grammar with the documented re-spellings; "
                "TLC proves Parse(Respell(Print(g))) = g and rejection of trailing tokens for a family x every token-level re-spelling; "
                "TLC-enumerated re-spelt texts (keyword case, whitespace kinds, bare MultiPoint members, exponent numerals, trailing "
                "tokens) are replayed into the real UnmarshalWKT; and the text recorded from the real AsText/AppendWKT (tokenised by an "
                "independent tokeniser, numbers as the bits they denote) must be accepted by the specification's parser, be canonical, "
                "and denote exactly the geometry built - also for the zero value of every Go type, and equal to the decode of its WKB.",
        "note": TLCNOTE + "Number text <-> float64 trusted to strconv.ParseFloat; 'shortest' decimal formatting is not decided, only "
                "round-trip exactness and absence of exponent form.",
        "technique": "TLA+ token-level WKT grammar (TLC exhaustive) + TLC-generated re-spellings replayed + TLC trace validation of recorded texts",
    },
    "C06": {
        "text": "GeoJSON.tla defines abstract RFC 7946 documents, the shape predicate (member names, nesting by type, 2/3-element "
                "positions), the decode rule (one global 2D/3D decision, truncation beyond three, bad position lengths) and the losses "
                "the format forces; TLC proves Decode(Encode(Loss g)) = Loss g and idempotence on a family; documents enumerated by TLC "
                "from a grammar are rendered to JSON by TLC and replayed into the real UnmarshalGeoJSON and every concrete Go type; and "
                "the real MarshalJSON output (re-parsed by encoding/json, and on the small-integer sub-domain by TLC's own JSON reader) "
                "must have the RFC shape and decode to Loss(g) both by the specification's rule and by the library; Feature / "
                "FeatureCollection round trips are logged and compared.",
        "note": TLCNOTE + "JSON number text <-> float64 trusted to strconv/encoding/json.",
        "technique": "TLA+ abstract GeoJSON document model (TLC exhaustive) + TLC-generated documents replayed + TLC trace validation of recorded output",
    },
    "C08": {
        "text": "Every decoder and adapter is called on untrusted input inside a sacrificial worker process (3 GiB address-space limit, "
                "timeout, recover around every call); one event per input records the outcome, the heap the input made the process "
                "acquire, whether a validated result passes Validate and whether every result can be re-encoded. The trace specification "
                "has a step only for the outcomes err / ok within the memory bound; panic and a killed process have none. Inputs: "
                "TLC-enumerated corruptions (every truncation, header/count/type byte substitution, boundary counts at every offset) of "
                "the encodings written by the specification's WKB writer - each also read by the specification's reader, whose counts are "
                "checked against the remaining input and which must never leave the input - plus seeded sweeps and mutations of a corpus "
                "in all four formats.",
        "note": TLCNOTE + "Memory judged as heap held after the call minus heap held before it (after returning free memory to the OS), "
                "bound 128 MiB + 2048 x input length (Go heap arenas are 64 MiB); timeouts are counted as inconclusive because the "
                "property bounds memory, not time. No coverage-guided fuzzing.",
        "technique": "TLA+ outcome specification + TLC-enumerated structured corruptions of reference encodings + TLC trace validation of observed decoder outcomes",
    },
    "C12": {
        "text": "Envelope.tla defines the envelope algebra by closed intervals (empty = identity of the join, absorbing for the "
                "predicates); TLC checks the lattice laws over all envelopes of a small lattice, enumerates every pair (thorough: "
                "triple) of lattice envelopes incl. empty and degenerate ones as cases for every method of the real Envelope type, and "
                "validates the recorded results, as well as Envelope() of random geometries, six re-representations, member envelopes "
                "and Union envelopes, against the definitions.",
        "note": TLCNOTE + "Integer ordinates only (exact arithmetic).",
        "technique": "TLA+ interval algebra (TLC exhaustive laws) + TLC-enumerated envelope pairs/triples replayed + TLC trace validation",
    },
    "C16": {
        "text": "StructOps.tla defines every structure-preserving operation as a function on abstract trees whose vertices carry opaque "
                "X/Y/Z/M tokens (Force*: dropped dimensions disappear, added ones are zero, XY never changes; constructors reduce mixed "
                "members to the common type and force them; Reverse / TransformXY / AsMulti / Dump / round trips keep each vertex's "
                "payload with it); TLC checks CtypeUniform, the Force laws and Reverse involution on every state reachable by bounded "
                "operation sequences, emits every transition as a one-step history for the real library, and validates recorded "
                "histories (1..12 real operations on real values, each result read back through every accessor, Dump, DumpCoordinates "
                "and the XY-only operations) step by step against its own abstract value.",
        "note": TLCNOTE + "Model bound: 48 start geometries, op sequences <= 2 (quick) / 3 (thorough); histories up to 12 operations.",
        "technique": "TLA+ abstract tree transition function (TLC exhaustive invariants) + TLC-enumerated transitions replayed + TLC trace validation of operation histories",
    },
    "C18": {
        "text": "Equality.tla defines ExactEquals: Eq = structural identity of the abstract trees (-0 ~ +0), i.e. equality of the WKB "
                "encodings, and EqIO = existence of bijections of members and holes, either direction of a line, any start vertex and "
                "direction of a ring - and nothing else; TLC checks reflexivity, symmetry, transitivity, Eq => EqIO, 'reorderings are "
                "EqIO-equal' and 'single differences are never equal' over a family with duplicate members x all pairs of variants, "
                "emits every (base, variant) pair as a case, and validates the recorded results of the real ExactEquals (no option, "
                "IgnoreOrder, both argument orders, reflexive calls, ToleranceXY) on those and on random pairs over all float classes.",
        "note": TLCNOTE + "Closed LineStrings in the families are rings the library classifies consistently (known finding F17 is "
                "replayed explicitly); ToleranceXY decided on integer vertices.",
        "technique": "TLA+ definitional equality relations (TLC exhaustive equivalence laws) + TLC-enumerated pairs replayed + TLC trace validation",
    },
    "C17": {
        "text": "LinearOps.tla states the contracts with exact integer / rational arithmetic: the point at a rational arc-length "
                "fraction of a lattice line with integer segment lengths (and its interpolated Z/M), the evenly spaced points, the "
                "Simplify contract (subsequence, same end points, every dropped vertex within the rational threshold of the line "
                "through its bracketing kept vertices, valid or error), the Densify contract (original vertices in order, added points "
                "on the segment in order, no gap longer than d), SnapToGrid oddness / idempotence / finiteness as relations on IEEE bits "
                "and the half-step bound on decimals, Reverse involution and ForceCW/CCW; TLC validates every recorded call of the real "
                "library against them.",
        "note": TLCNOTE + "Positions decided to 2^-9 (interpolation) and 2/256 (densify) of the lattice unit; SnapToGrid half-step "
                "bound only for 3-digit decimal mantissas; ordinates up to +-1e300 as the property states.",
        "technique": "TLA+ exact contracts (integer/rational arithmetic, bit relations); TLC trace validation of recorded calls",
    },
    "C20": {
        "text": "Empties.tla states the neutral answers of an all-empty geometry as functions of its abstract tree (structural "
                "Dimension, canonical WKT, closed-form DE-9IM, zero measures, empty derived geometries, undefined distance, Union with "
                "empty = self-union) and transparency as an action property over histories: the observation vector must not change "
                "across InsertEmpty / RemoveEmpty steps. TLC enumerates every all-empty shape to depth 2 as a case (the real library is "
                "then asked, by reflection, for every public method of Geometry and the concrete types and 24 free functions in both "
                "argument positions: no panic, neutral answers), compares the zero Geometry with the empty GeometryCollection "
                "observation by observation, and validates recorded histories of real InsertEmpty / RemoveEmpty steps with a 25-entry "
                "observation vector.",
        "note": TLCNOTE + "Index accessors (PointN etc.) and MustAs* are excluded (documented / ordinary Go panics); set-operation "
                "results are compared as point sets through the library's Equals (itself covered by C02).",
        "technique": "TLA+ neutral-answer table and transparency action property; TLC-enumerated emptiness shapes replayed by reflection + TLC trace validation of insert/remove histories",
    },
    "C10": {
        "text": "Purity.tla models threads calling operations on shared values: Begin records the operands' digests, End is enabled "
                "only if the operands still have them and the result equals the memoised result for the same operation on the same "
                "operand digests; no action writes the store and a race report has no action. TLC checks StoreConstant, MemoFunctional "
                "and NoStuck over all interleavings of 3 threads x 2 values x 2 operations, and validates recorded histories of a "
                "-race build (2..16 goroutines x 31 public read operations over shared geometries and a shared bulk-loaded R-tree, "
                "unsynchronised per-goroutine buffers), each executed by two fresh processes and joined so that results must be "
                "deterministic across goroutines, repetitions and processes.",
        "note": TLCNOTE + "Schedules are those the Go scheduler and the race detector observe; the library has no internal "
                "synchronisation points to gate.",
        "technique": "TLA+ interleaving model of pure calls (TLC exhaustive) + TLC trace validation of race-detector histories joined across two processes",
    },
}
