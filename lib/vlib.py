"""Shared machinery for /verif/bin/check.

Pipeline per property (see DESIGN.md section 2):
  build harness from /repo's working tree (-tags verif)
  (M) exhaustive TLC run of the reference model              -> states / transitions
  (G) TLC-enumerated cases  -> real code -> recorded events  -> TLC trace validation
  (T) seeded random cases   -> real code -> recorded events  -> TLC trace validation
  every mismatch is reproduced against the real code and re-judged by TLC before it counts
  known findings / evidence / exit code
Exit codes: 0 property held, 1 violation (VIOLATION line printed), 2 machinery error.
"""
import hashlib
import json
import os
import re
import shutil
import subprocess
import threading
import sys
import tempfile
import time

VERIF = os.path.dirname(os.path.dirname(os.path.abspath(__file__)))
REPO = os.environ.get("VERIF_REPO", "/repo")
WORKROOT = os.path.join(VERIF, ".work")
SPEC = os.path.join(VERIF, "spec")
HARNESS = os.path.join(VERIF, "harness")
TLAJARS = "/opt/veriftools/tla/tla2tools.jar:/opt/veriftools/tla/CommunityModules-deps.jar"
NCPU = os.cpu_count() or 4


class MachineryError(Exception):
    pass


def log(*a):
    print("[check]", *a, file=sys.stderr, flush=True)


def goenv():
    e = dict(os.environ)
    e.update(GOFLAGS="-mod=mod", GOPROXY="off", GOSUMDB="off", GOTOOLCHAIN="local")
    e.setdefault("GOCACHE", os.path.join(WORKROOT, "gocache"))
    return e


CHUNK_LINES = 20000
CHUNK_BYTES = 48 << 20
_TLC_LOCK = threading.Lock()


class Run:
    """One invocation of a check: scratch directory, counters, evidence."""

    def __init__(self, prop, tier, seed):
        self.prop = prop
        self.tier = tier
        self.seed = seed
        self.t0 = time.time()
        os.makedirs(WORKROOT, exist_ok=True)
        self.dir = tempfile.mkdtemp(prefix="%s-%s-" % (prop, tier), dir=WORKROOT)
        self.bin = os.path.join(self.dir, "bin")
        os.makedirs(self.bin)
        self.states = 0
        self.transitions = 0
        self.traces = 0          # recorded calls of the real code judged by TLC
        self.evaluations = 0
        self.hashes = set()      # distinct non-trivial case hashes
        self.samples = []
        self.stages = []
        self.skipped = 0
        self.inconclusive = 0
        self.mismatches = []     # confirmed, not known
        self.known = []
        self.assumptions = []
        self.exhaustive = False
        self.tlc_n = 0

    def cleanup(self):
        shutil.rmtree(self.dir, ignore_errors=True)

    # ---------------------------------------------------------------- build
    def build(self, race=False, name="sfdrive"):
        out = os.path.join(self.bin, name + ("-race" if race else ""))
        if os.path.exists(out):
            return out
        # build from a private copy of the harness module whose replace directive points at the tree under test
        # (/repo by default; VERIF_REPO lets a scratch worktree be checked without touching /repo)
        hdir = os.path.join(self.dir, "harness")
        if not os.path.isdir(hdir):
            shutil.copytree(HARNESS, hdir)
            with open(os.path.join(hdir, "go.mod")) as f:
                gm = f.read()
            with open(os.path.join(hdir, "go.mod"), "w") as f:
                f.write(gm.replace("=> /repo", "=> " + REPO))
            shutil.copyfile(os.path.join(REPO, "go.sum"), os.path.join(hdir, "go.sum"))
        cmd = ["go", "build", "-tags", "verif", "-o", out]
        if race:
            cmd.insert(2, "-race")
        cmd.append("./cmd/" + name)
        t = time.time()
        p = subprocess.run(cmd, cwd=hdir, env=goenv(), capture_output=True, text=True)
        if p.returncode != 0:
            raise MachineryError("harness build failed (does /repo compile?):\n" + p.stdout + p.stderr)
        log("built %s in %.1fs" % (os.path.basename(out), time.time() - t))
        return out

    # ---------------------------------------------------------------- driver
    def drive(self, args, out_path=None, stdin_path=None, timeout=3600, race=False, env=None, check=True):
        exe = self.build(race=race)
        e = dict(os.environ)
        if env:
            e.update(env)
        fin = open(stdin_path, "rb") if stdin_path else subprocess.DEVNULL
        fout = open(out_path, "wb") if out_path else subprocess.PIPE
        try:
            p = subprocess.run([exe] + [str(a) for a in args], stdin=fin, stdout=fout, stderr=subprocess.PIPE,
                               timeout=timeout, env=e)
        except subprocess.TimeoutExpired:
            raise MachineryError("driver timeout: %s" % (args,))
        finally:
            if stdin_path:
                fin.close()
            if out_path:
                fout.close()
        if check and p.returncode != 0:
            raise MachineryError("driver failed (%d): %s\n%s" % (p.returncode, args, p.stderr.decode(errors="replace")[-4000:]))
        return p

    # ---------------------------------------------------------------- TLC
    def tlc(self, module, cfg=None, env=None, workers=None, timeout=3600, heap="12g", extra=(), simulate=None,
            allow_error=False, label=None):
        """Run TLC on spec/<module>.tla in a scratch copy of the spec directory.
        Returns dict(generated, distinct, out=[parsed json values], raw=stdout, error=str|None)."""
        with _TLC_LOCK:
            self.tlc_n += 1
            wd = os.path.join(self.dir, "tlc%d" % self.tlc_n)
        shutil.copytree(SPEC, wd)
        cfg = cfg or module + ".cfg"
        workers = workers or NCPU
        cmd = ["java", "-Xmx" + heap, "-Xss256m", "-XX:+UseParallelGC", "-XX:ParallelGCThreads=4",
               "-cp", TLAJARS, "tlc2.TLC", "-workers", str(workers), "-metadir", os.path.join(wd, "md"),
               "-config", cfg, "-noGenerateSpecTE"]
        if simulate:
            cmd += ["-simulate", simulate]
        cmd += list(extra) + [module + ".tla"]
        e = dict(os.environ)
        e.pop("JAVA_TOOL_OPTIONS", None)
        if env:
            e.update({k: str(v) for k, v in env.items()})
        t = time.time()
        try:
            p = subprocess.run(cmd, cwd=wd, env=e, capture_output=True, text=True, timeout=timeout)
        except subprocess.TimeoutExpired:
            raise MachineryError("TLC timeout on %s after %ds" % (module, timeout))
        raw = p.stdout
        res = {"generated": 0, "distinct": 0, "out": [], "raw": raw, "error": None, "wall": time.time() - t}
        m = None
        for m in re.finditer(r"(\d+) states generated, (\d+) distinct states found", raw):
            pass
        if m:
            res["generated"], res["distinct"] = int(m.group(1)), int(m.group(2))
        for line in raw.splitlines():
            if line.startswith('"{') or line.startswith('"['):
                try:
                    res["out"].append(json.loads(json.loads(line)))
                except Exception:
                    pass
        err = None
        if "Error:" in raw or p.returncode not in (0,):
            i = raw.find("Error:")
            err = raw[i:i + 3000] if i >= 0 else "TLC exit %d\n%s" % (p.returncode, raw[-2000:] + p.stderr[-2000:])
        res["error"] = err
        shutil.rmtree(wd, ignore_errors=True)
        log("TLC %s%s: %d generated / %d distinct in %.1fs%s" % (module, " [" + label + "]" if label else "",
                                                                  res["generated"], res["distinct"], res["wall"],
                                                                  " ERROR" if err else ""))
        if err and not allow_error:
            raise MachineryError("TLC error in %s:\n%s" % (module, err))
        return res

    # ---------------------------------------------------------------- (M)
    def model_check(self, module, cfg=None, timeout=3600, workers=None, heap="16g", label=None, env=None, coverage=False):
        extra = ["-coverage", "1"] if coverage else []
        r = self.tlc(module, cfg=cfg, timeout=timeout, workers=workers, heap=heap, allow_error=True, label=label,
                     env=env, extra=extra)
        if r["error"]:
            # a counterexample on the reference model alone is a bug in the model: machinery error
            raise MachineryError("reference model %s fails its own check:\n%s" % (module, r["error"]))
        self.states += r["distinct"]
        self.transitions += r["generated"]
        self.stages.append({"stage": "model-check", "module": module, "cfg": cfg or module + ".cfg",
                            "generated": r["generated"], "distinct": r["distinct"], "wall_s": round(r["wall"], 1)})
        return r

    # ---------------------------------------------------------------- (G) enumerate cases with TLC
    def tlc_cases(self, module, cfg=None, out_path=None, timeout=3600, label=None, env=None, heap="12g"):
        """Run a Gen_* configuration; every PrintT(ToJson(case)) line becomes one case (ndjson)."""
        r = self.tlc(module, cfg=cfg, timeout=timeout, label=label, env=env, heap=heap)
        cases = [c for c in r["out"] if isinstance(c, dict) and c.get("k") == "CASE"]
        out_path = out_path or os.path.join(self.dir, "cases-%s.ndjson" % module)
        with open(out_path, "w") as f:
            for c in cases:
                c.pop("k", None)
                f.write(json.dumps(c, separators=(",", ":")) + "\n")
        self.states += r["distinct"]
        self.transitions += r["generated"]
        self.stages.append({"stage": "enumerate", "module": module, "cases": len(cases),
                            "generated": r["generated"], "distinct": r["distinct"], "wall_s": round(r["wall"], 1)})
        return out_path, len(cases)

    # ---------------------------------------------------------------- (T) trace validation
    def validate(self, module, trace_path, shards=64, timeout=3600, label=None, env=None, heap="12g", cfg="Trace.cfg",
                 count=True):
        """Judge a recorded ndjson trace with spec/<module>.tla. Returns (verdicts, n_events);
        verdicts = list of dict(l, r, ...) for every line whose verdict is not "ok"."""
        n = 0
        with open(trace_path, "rb") as f:
            for _ in f:
                n += 1
        if n == 0:
            raise MachineryError("empty trace for %s" % module)
        if n > CHUNK_LINES or os.path.getsize(trace_path) > CHUNK_BYTES:
            return self._validate_chunked(module, trace_path, n, shards, timeout, label, env, heap, cfg, count)
        ev = {"VTRACE": trace_path, "VSHARDS": shards}
        if env:
            ev.update(env)
        r = self.tlc(module, cfg=cfg, env=ev, timeout=timeout, label=label, heap=heap)
        done = [o for o in r["out"] if isinstance(o, dict) and o.get("k") == "DONE"]
        if not done or done[-1]["distinct"] != done[-1]["want"]:
            raise MachineryError("trace %s not fully consumed by %s: %s" % (trace_path, module, done[-1:] or r["raw"][-1500:]))
        verdicts = [o for o in r["out"] if isinstance(o, dict) and o.get("k") == "V"]
        if count:
            self.states += r["distinct"]
            self.transitions += r["generated"]
            self.traces += n
            self.stages.append({"stage": "trace-validation", "module": module, "events": n, "label": label,
                                "not_ok": len(verdicts), "wall_s": round(r["wall"], 1)})
        return verdicts, n


def _validate_chunked(self, module, trace_path, n, shards, timeout, label, env, heap, cfg, count):
    """A long trace is judged in pieces (the Json module reads the whole file into memory before the first state):
    consecutive chunks of at most CHUNK_LINES lines / CHUNK_BYTES bytes, three TLC runs at a time.  Every line is
    judged exactly once; verdict line numbers are mapped back to the whole trace."""
    import concurrent.futures
    chunks = []  # (path, first_line_0based, nlines)
    base = trace_path + ".chunk"
    out, k, first, lines, size = None, 0, 0, 0, 0
    with open(trace_path, "rb") as f:
        for i, line in enumerate(f):
            if out is None or lines >= CHUNK_LINES or size + len(line) > CHUNK_BYTES:
                if out:
                    out.close()
                    chunks.append((path, first, lines))
                k += 1
                path = "%s%d" % (base, k)
                out, first, lines, size = open(path, "wb"), i, 0, 0
            out.write(line)
            lines += 1
            size += len(line)
    out.close()
    chunks.append((path, first, lines))
    t0 = time.time()

    def one(ch):
        path, first, lines = ch
        ev = {"VTRACE": path, "VSHARDS": shards}
        if env:
            ev.update(env)
        r = self.tlc(module, cfg=cfg, env=ev, timeout=timeout, label="%s %d/%d" % (label or "", chunks.index(ch) + 1, len(chunks)),
                     heap="8g", workers=max(4, NCPU // 2))
        done = [o for o in r["out"] if isinstance(o, dict) and o.get("k") == "DONE"]
        if not done or done[-1]["distinct"] != done[-1]["want"]:
            raise MachineryError("trace %s not fully consumed by %s: %s" % (path, module, done[-1:] or r["raw"][-1500:]))
        vs = [o for o in r["out"] if isinstance(o, dict) and o.get("k") == "V"]
        for v in vs:
            v["l"] += first
        os.unlink(path)
        return vs, r["distinct"], r["generated"]

    verdicts, dist, gen = [], 0, 0
    with concurrent.futures.ThreadPoolExecutor(max_workers=3) as ex:
        for vs, d, g in ex.map(one, chunks):
            verdicts += vs
            dist += d
            gen += g
    if count:
        self.states += dist
        self.transitions += gen
        self.traces += n
        self.stages.append({"stage": "trace-validation", "module": module, "events": n, "label": label, "chunks": len(chunks),
                            "not_ok": len(verdicts), "wall_s": round(time.time() - t0, 1)})
    return verdicts, n


Run._validate_chunked = _validate_chunked


def load_events(path):
    evs = []
    with open(path) as f:
        for line in f:
            evs.append(json.loads(line))
    return evs


def classify(v):
    r = v.get("r", "")
    if r.startswith("skip:"):
        return "skip"
    if r.startswith("inc:"):
        return "inconclusive"
    return "mismatch"


# -------------------------------------------------------------------- known findings
def load_known(prop):
    out = []
    p = os.path.join(VERIF, "known_findings.jsonl")
    if os.path.exists(p):
        for line in open(p):
            line = line.strip()
            if not line or line.startswith("#"):
                continue
            k = json.loads(line)
            if k.get("property") == prop and k.get("status") == "known":
                out.append(k)
    return out


def match_known(known, reason, repro_text):
    for k in known:
        if k.get("reason") and not re.fullmatch(k["reason"], reason):
            continue
        if k.get("input") and not re.search(k["input"], repro_text):
            continue
        return k
    return None


def case_hash(obj):
    return hashlib.sha256(json.dumps(obj, sort_keys=True, separators=(",", ":")).encode()).hexdigest()[:16]


def write_replay(prop, family, repro, reason, detail):
    d = os.path.join(VERIF, "replays")
    os.makedirs(d, exist_ok=True)
    h = case_hash([family, repro, reason])
    p = os.path.join(d, "%s-%s.json" % (prop, h))
    with open(p, "w") as f:
        json.dump({"property": prop, "family": family, "repro": repro, "reason": reason, "detail": detail}, f, indent=1)
    return p


def write_evidence(run, violations, extra_cov=None, level="model_checking"):
    cov = {
        "states": max(run.states, 0),
        "transitions": max(run.transitions, 0),
        "traces_validated_against_impl": run.traces,
        "samples": run.samples[:6] if run.samples else ["(no sample recorded)"],
        "evaluations": run.evaluations,
        "distinct_nontrivial": len(run.hashes),
        "rule": "",
        "exhaustive": run.exhaustive,
        "skipped_by_spec_guard": run.skipped,
        "inconclusive": run.inconclusive,
        "known_findings_hit": len(run.known),
        "stages": run.stages,
    }
    if extra_cov:
        cov.update(extra_cov)
    ev = {
        "property_id": run.prop,
        "tier": run.tier,
        "seed": run.seed,
        "level": level,
        "coverage": cov,
        "assumptions": run.assumptions,
        "wall_s": round(time.time() - run.t0, 1),
        "violations": violations,
    }
    # /verif/evidence describes checks of /repo; a run pointed at another tree (VERIF_REPO: seeded changes, the
    # unrepaired tree) writes its evidence next to its replays instead
    evdir = os.path.join(VERIF, "evidence") if not os.environ.get("VERIF_REPO") else os.path.join(VERIF, "replays", "evidence-other-tree")
    os.makedirs(evdir, exist_ok=True)
    p = os.path.join(evdir, run.prop + ".json")
    tmp = p + ".tmp%d" % os.getpid()
    with open(tmp, "w") as f:
        json.dump(ev, f, indent=1)
    os.replace(tmp, p)
    return p
