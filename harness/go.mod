module sfverif

go 1.17

require github.com/peterstace/simplefeatures v0.0.0

replace github.com/peterstace/simplefeatures => /repo
