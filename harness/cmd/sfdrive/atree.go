package main

import (
	"encoding/json"
	"fmt"
	"math"
	"math/rand"

	"github.com/peterstace/simplefeatures/geom"
)

// Abstract geometry trees with opaque ordinate tokens (16 hex digits of the IEEE-754 bits).
// Shared by the codec, structure, equality and emptiness families.
//
//	{"t": "Point", "ct": "XY", "c": []}                     empty point
//	{"t": "Point", "ct": "XYZ", "c": [tok,tok,tok]}
//	{"t": "LineString", "ct", "c": [[tok..]..]}
//	{"t": "Polygon", "ct", "c": [ring..]}                   ring = [[tok..]..]
//	{"t": "MultiPoint", "ct", "c": [[tok..] | [] ..]}
//	{"t": "MultiLineString", "ct", "c": [line..]}
//	{"t": "MultiPolygon", "ct", "c": [poly..]}
//	{"t": "GeometryCollection", "ct", "c": [tree..]}

type T = map[string]interface{}

func tok(f float64) string { return bitsHex(f) }

func tokFloat(v interface{}) float64 { return hexFloat(v) }

func ctName(ct geom.CoordinatesType) string { return ct.String() }

func asList(v interface{}) []interface{} {
	switch x := v.(type) {
	case nil:
		return nil
	case []interface{}:
		return x
	case []string:
		out := make([]interface{}, len(x))
		for i, s := range x {
			out[i] = s
		}
		return out
	case [][]string:
		out := make([]interface{}, len(x))
		for i, s := range x {
			out[i] = asList(s)
		}
		return out
	}
	panic(fmt.Sprintf("asList: %T", v))
}

func asTree(v interface{}) T {
	switch x := v.(type) {
	case T:
		return x
	case Case:
		return T(x)
	case Event:
		return T(x)
	}
	panic(fmt.Sprintf("asTree: %T", v))
}

func ptCoords(p []interface{}, ct geom.CoordinatesType) geom.Coordinates {
	if len(p) != ct.Dimension() {
		panic(fmt.Sprintf("point has %d tokens for %s", len(p), ct))
	}
	c := geom.Coordinates{Type: ct, XY: geom.XY{X: tokFloat(p[0]), Y: tokFloat(p[1])}}
	i := 2
	if ct.Is3D() {
		c.Z = tokFloat(p[i])
		i++
	}
	if ct.IsMeasured() {
		c.M = tokFloat(p[i])
	}
	return c
}

func ptsSeq(pts []interface{}, ct geom.CoordinatesType) geom.Sequence {
	fs := make([]float64, 0, len(pts)*ct.Dimension())
	for _, p := range pts {
		for _, v := range asList(p) {
			fs = append(fs, tokFloat(v))
		}
	}
	return geom.NewSequence(fs, ct)
}

func ringsPoly(rings []interface{}, ct geom.CoordinatesType) geom.Polygon {
	if len(rings) == 0 {
		return geom.Polygon{}.ForceCoordinatesType(ct)
	}
	rs := make([]geom.LineString, len(rings))
	for i, r := range rings {
		rs[i] = geom.NewLineString(ptsSeq(asList(r), ct))
	}
	return geom.NewPolygon(rs)
}

// buildTree constructs the geometry with the library's constructors (no validation).
func buildTree(t T) geom.Geometry {
	ct := ctOf(fmt.Sprint(t["ct"]))
	c := asList(t["c"])
	switch fmt.Sprint(t["t"]) {
	case "Point":
		if len(c) == 0 {
			return geom.NewEmptyPoint(ct).AsGeometry()
		}
		return geom.NewPoint(ptCoords(c, ct)).AsGeometry()
	case "LineString":
		return geom.NewLineString(ptsSeq(c, ct)).AsGeometry()
	case "Polygon":
		return ringsPoly(c, ct).AsGeometry()
	case "MultiPoint":
		if len(c) == 0 {
			return geom.MultiPoint{}.ForceCoordinatesType(ct).AsGeometry()
		}
		pts := make([]geom.Point, len(c))
		for i, p := range c {
			if pp := asList(p); len(pp) == 0 {
				pts[i] = geom.NewEmptyPoint(ct)
			} else {
				pts[i] = geom.NewPoint(ptCoords(pp, ct))
			}
		}
		return geom.NewMultiPoint(pts).AsGeometry()
	case "MultiLineString":
		if len(c) == 0 {
			return geom.MultiLineString{}.ForceCoordinatesType(ct).AsGeometry()
		}
		ls := make([]geom.LineString, len(c))
		for i, l := range c {
			ls[i] = geom.NewLineString(ptsSeq(asList(l), ct))
		}
		return geom.NewMultiLineString(ls).AsGeometry()
	case "MultiPolygon":
		if len(c) == 0 {
			return geom.MultiPolygon{}.ForceCoordinatesType(ct).AsGeometry()
		}
		ps := make([]geom.Polygon, len(c))
		for i, p := range c {
			ps[i] = ringsPoly(asList(p), ct)
		}
		return geom.NewMultiPolygon(ps).AsGeometry()
	case "GeometryCollection":
		if len(c) == 0 {
			return geom.GeometryCollection{}.ForceCoordinatesType(ct).AsGeometry()
		}
		gs := make([]geom.Geometry, len(c))
		for i, m := range c {
			gs[i] = buildTree(asTree(m))
		}
		return geom.NewGeometryCollection(gs).AsGeometry()
	}
	panic("buildTree: unknown type " + fmt.Sprint(t["t"]))
}

func coordToks(c geom.Coordinates) []string {
	out := []string{tok(c.X), tok(c.Y)}
	if c.Type.Is3D() {
		out = append(out, tok(c.Z))
	}
	if c.Type.IsMeasured() {
		out = append(out, tok(c.M))
	}
	return out
}

func seqToks(s geom.Sequence) [][]string {
	out := make([][]string, 0, s.Length())
	for i := 0; i < s.Length(); i++ {
		out = append(out, coordToks(s.Get(i)))
	}
	return out
}

func polyToks(p geom.Polygon) [][][]string {
	out := [][][]string{}
	if p.IsEmpty() {
		return out
	}
	out = append(out, seqToks(p.ExteriorRing().Coordinates()))
	for i := 0; i < p.NumInteriorRings(); i++ {
		out = append(out, seqToks(p.InteriorRingN(i).Coordinates()))
	}
	return out
}

// projectTree reads a geometry back through its accessors; every node records its own coordinate type.
func projectTree(g geom.Geometry) Event {
	ev := Event{"t": g.Type().String(), "ct": ctName(g.CoordinatesType())}
	switch g.Type() {
	case geom.TypePoint:
		p := g.MustAsPoint()
		if c, ok := p.Coordinates(); ok {
			ev["c"] = coordToks(c)
		} else {
			ev["c"] = []string{}
		}
	case geom.TypeLineString:
		ev["c"] = seqToks(g.MustAsLineString().Coordinates())
	case geom.TypePolygon:
		ev["c"] = polyToks(g.MustAsPolygon())
	case geom.TypeMultiPoint:
		mp := g.MustAsMultiPoint()
		pts := [][]string{}
		for i := 0; i < mp.NumPoints(); i++ {
			if c, ok := mp.PointN(i).Coordinates(); ok {
				pts = append(pts, coordToks(c))
			} else {
				pts = append(pts, []string{})
			}
		}
		ev["c"] = pts
	case geom.TypeMultiLineString:
		m := g.MustAsMultiLineString()
		ls := [][][]string{}
		for i := 0; i < m.NumLineStrings(); i++ {
			ls = append(ls, seqToks(m.LineStringN(i).Coordinates()))
		}
		ev["c"] = ls
	case geom.TypeMultiPolygon:
		m := g.MustAsMultiPolygon()
		ps := [][][][]string{}
		for i := 0; i < m.NumPolygons(); i++ {
			ps = append(ps, polyToks(m.PolygonN(i)))
		}
		ev["c"] = ps
	case geom.TypeGeometryCollection:
		gc := g.MustAsGeometryCollection()
		ms := []Event{}
		for i := 0; i < gc.NumGeometries(); i++ {
			ms = append(ms, projectTree(gc.GeometryN(i)))
		}
		ev["c"] = ms
	}
	return ev
}

func treeFromJSON(v interface{}) T {
	switch x := v.(type) {
	case map[string]interface{}:
		return T(x)
	case string:
		var t T
		if err := json.Unmarshal([]byte(x), &t); err != nil {
			panic(err)
		}
		return t
	}
	panic(fmt.Sprintf("treeFromJSON: %T", v))
}

// ---------------------------------------------------------------- random trees

var typeNames = []string{"Point", "LineString", "Polygon", "MultiPoint", "MultiLineString", "MultiPolygon", "GeometryCollection"}

// float classes: all finite classes for X/Y; NaN payloads and infinities additionally for Z/M
var finiteClasses = []float64{
	0, math.Copysign(0, -1), 1, -1, 2.5, 1e-300, -1e300, 1.7976931348623157e308, 5e-324, -5e-324, 2.2250738585072014e-308,
	0.1, 0.30000000000000004, 123456789.12345679, -98765.4321, 1e21, 1e-7, 3.141592653589793, 4503599627370497, 0.5,
}

type treeGen struct {
	r       *rand.Rand
	finite  bool // only finite values (WKT, GeoJSON)
	simple  bool // small readable values, valid shapes
	ringNo  int
	sliver  bool // rings are triangles a few ulps wide
	short   bool // some rings have only 1..3 points and are not closed (invalid, but every codec carries them with NoValidate)
	bigUsed int
	empties int  // with big: empty members so far (kept few: k equal members cost a member matcher k! steps)
	big     bool // counts (vertices of a line or ring, members, rings) are sometimes just above 8, 16, 32 or 64
}

// cnt: lo..hi, or with big sometimes a count just above a power of two (thresholds hide in code: a chunked copy, a
// bitmask of members, a stack buffer).
func (g *treeGen) cnt(lo, hi int) int {
	if g.big && g.bigUsed < 2 && g.r.Intn(3) == 0 {
		g.bigUsed++ // at most two large dimensions in one tree (a collection of many lines of many vertices, no more)
		return []int{9, 9, 17, 17, 17, 33, 33, 65}[g.r.Intn(8)] + g.r.Intn(4)
	}
	if hi == lo {
		return lo
	}
	return lo + g.r.Intn(hi-lo+1)
}

// fewEmpties: true without big; with big, true for the first four empty members only.
func (g *treeGen) fewEmpties() bool {
	if !g.big {
		return true
	}
	g.empties++
	return g.empties <= 4
}

func (g *treeGen) val(zm bool) float64 {
	if g.simple {
		return float64(g.r.Intn(9) - 4)
	}
	if zm && !g.finite && g.r.Intn(6) == 0 {
		return []float64{math.NaN(), math.Inf(1), math.Inf(-1), math.Float64frombits(0x7ff8000000000abc), math.Float64frombits(0xfff0000000000001)}[g.r.Intn(5)]
	}
	switch g.r.Intn(4) {
	case 0:
		return finiteClasses[g.r.Intn(len(finiteClasses))]
	case 1:
		return float64(g.r.Intn(2001) - 1000)
	case 2:
		return math.Float64frombits(g.r.Uint64()&^(0x7ff<<52) | uint64(g.r.Intn(2046)+1)<<52) // random finite normal
	}
	return g.r.NormFloat64() * 100
}

func (g *treeGen) pt(ct geom.CoordinatesType) []interface{} {
	p := []interface{}{tok(g.val(false)), tok(g.val(false))}
	for i := 2; i < ct.Dimension(); i++ {
		p = append(p, tok(g.val(true)))
	}
	return p
}

func (g *treeGen) pts(ct geom.CoordinatesType, lo, hi int) []interface{} {
	out := []interface{}{}
	for i, n := 0, g.cnt(lo, hi); i < n; i++ {
		out = append(out, g.pt(ct))
	}
	return out
}

func (g *treeGen) ring(ct geom.CoordinatesType) []interface{} {
	if g.simple {
		// a valid triangle; successive rings are placed apart so that multi-geometries stay valid too
		g.ringNo++
		ox, k := float64(10*g.ringNo), float64(1+g.r.Intn(4))
		mk := func(x, y float64) []interface{} {
			p := g.pt(ct)
			p[0], p[1] = tok(x), tok(y)
			return p
		}
		a := mk(ox, 0)
		if m := g.cnt(0, 0); m > 0 {
			// a valid ring of many vertices: the outline of a strip one unit wide and m high, every lattice point on it
			ring := []interface{}{a}
			for y := 0; y <= m; y++ {
				ring = append(ring, mk(ox+1, float64(y)))
			}
			for y := m; y >= 1; y-- {
				ring = append(ring, mk(ox, float64(y)))
			}
			return append(ring, a)
		}
		if g.sliver {
			// a valid triangle one to three ulps wide (see fam_sliver.go)
			return []interface{}{a, mk(ox+k*(math.Nextafter(ox, 2*ox)-ox), 0), mk(ox, k), a}
		}
		return []interface{}{a, mk(ox+k, 0), mk(ox, k), a}
	}
	if g.short && g.r.Intn(5) == 0 {
		return g.pts(ct, 1, 3)
	}
	r := g.pts(ct, 3, 5)
	return append(r, r[0])
}

func (g *treeGen) poly(ct geom.CoordinatesType) []interface{} {
	out := []interface{}{}
	n := g.r.Intn(3) // 0 rings = empty polygon
	if n == 0 && !g.fewEmpties() {
		n = 1
	}
	if g.simple && n == 2 {
		n = 1
	}
	for i := 0; i < n; i++ {
		out = append(out, g.ring(ct))
	}
	return out
}

func (g *treeGen) tree(depth int, ct geom.CoordinatesType, kind string) T {
	if kind == "" {
		kind = typeNames[g.r.Intn(7)]
		if depth >= 4 && kind == "GeometryCollection" {
			kind = "Point"
		}
	}
	t := T{"t": kind, "ct": ctName(ct), "c": []interface{}{}}
	if g.r.Intn(7) == 0 && g.fewEmpties() {
		return t // empty
	}
	switch kind {
	case "Point":
		t["c"] = g.pt(ct)
	case "LineString":
		t["c"] = g.pts(ct, 2, 5)
	case "Polygon":
		t["c"] = g.poly(ct)
	case "MultiPoint":
		c := []interface{}{}
		for i, n := 0, g.cnt(1, 3); i < n; i++ {
			if g.r.Intn(5) == 0 && g.fewEmpties() {
				c = append(c, []interface{}{})
			} else {
				c = append(c, g.pt(ct))
			}
		}
		t["c"] = c
	case "MultiLineString":
		c := []interface{}{}
		for i, n := 0, g.cnt(1, 3); i < n; i++ {
			if g.r.Intn(5) == 0 && g.fewEmpties() {
				c = append(c, []interface{}{})
			} else {
				c = append(c, g.pts(ct, 2, 4))
			}
		}
		t["c"] = c
	case "MultiPolygon":
		c := []interface{}{}
		for i, n := 0, g.cnt(1, 3); i < n; i++ {
			c = append(c, g.poly(ct))
		}
		t["c"] = c
	case "GeometryCollection":
		c := []interface{}{}
		for i, n := 0, g.cnt(1, 3); i < n; i++ {
			c = append(c, g.tree(depth+1, ct, ""))
		}
		t["c"] = c
	}
	return t
}
