package main

import (
	"math/rand"
	"strconv"
	"strings"

	"github.com/peterstace/simplefeatures/geom"
)

// Family "wkt" (C05).

// wktTokens: an independent tokeniser for the text the library prints: words, ( ) , and numbers.
// Numbers become "n:<bits>" (their value by strconv.ParseFloat); a leading '-' is its own token.
func wktTokens(s string) (toks []string, noexp bool) {
	noexp = true
	i := 0
	for i < len(s) {
		ch := s[i]
		switch {
		case ch == ' ' || ch == '\t' || ch == '\n' || ch == '\r':
			i++
		case ch == '(' || ch == ')' || ch == ',':
			toks = append(toks, string(ch))
			i++
		case ch == '-':
			toks = append(toks, "-")
			i++
		case (ch >= '0' && ch <= '9') || ch == '.' || ch == '+':
			j := i
			for j < len(s) && strings.ContainsRune("0123456789.eE+", rune(s[j])) || (j < len(s) && s[j] == '-' && j > i && (s[j-1] == 'e' || s[j-1] == 'E')) {
				j++
			}
			txt := s[i:j]
			if strings.ContainsAny(txt, "eE") {
				noexp = false
			}
			f, err := strconv.ParseFloat(txt, 64)
			if err != nil {
				toks = append(toks, "bad:"+txt)
			} else {
				toks = append(toks, "n:"+bitsHex(f))
			}
			i = j
		default:
			j := i
			for j < len(s) && ((s[j] >= 'A' && s[j] <= 'Z') || (s[j] >= 'a' && s[j] <= 'z')) {
				j++
			}
			if j == i {
				toks = append(toks, "bad:"+string(ch))
				j++
			} else {
				toks = append(toks, s[i:j])
			}
			i = j
		}
	}
	return toks, noexp
}

func wktGen(r *rand.Rand, n int, tier string, emit func(Case)) {
	for z := 0; z < 8; z++ {
		emit(Case{"kind": "zero", "which": z})
	}
	for i := 0; i < n+bigExtra(n); i++ { // large sizes come last
		tg := &treeGen{r: r, finite: true, simple: i%4 == 3, short: i%4 == 1, big: i >= n}
		kind := ""
		if i < 28 {
			kind = typeNames[i%7]
		}
		emit(Case{"kind": "text", "tree": tg.tree(0, ctypes[(i/7)%4], kind)})
	}
}

func wktOnPanic(c Case) Event {
	e := Event{"t": "Point", "ct": "XY", "c": []string{}}
	return Event{"kind": c.str("kind"), "g": e, "toks": []string{}, "noexp": false, "append": false, "reerr": "", "valerr": "", "re": e, "viawkb": e,
		"text": "", "wanttext": "", "want": "", "wantg": e}
}

type wktAppender interface {
	AppendWKT([]byte) []byte
	AsText() string
}

func wktExec(c Case) Event {
	ev := wktOnPanic(c)
	prefix := "prefix "
	switch c.str("kind") {
	case "zero":
		zs := []wktAppender{geom.Geometry{}, geom.Point{}, geom.LineString{}, geom.Polygon{}, geom.MultiPoint{}, geom.MultiLineString{},
			geom.MultiPolygon{}, geom.GeometryCollection{}}
		want := []string{"GEOMETRYCOLLECTION EMPTY", "POINT EMPTY", "LINESTRING EMPTY", "POLYGON EMPTY", "MULTIPOINT EMPTY",
			"MULTILINESTRING EMPTY", "MULTIPOLYGON EMPTY", "GEOMETRYCOLLECTION EMPTY"}
		z := zs[c.num("which")]
		ev["wanttext"] = want[c.num("which")]
		ev["text"] = z.AsText()
		ev["append"] = string(z.AppendWKT([]byte(prefix))) == prefix+z.AsText()
		return ev
	case "parse":
		ev["want"] = c.str("want")
		if w := c.str("want"); w != "error" {
			ev["wantg"] = treeFromJSON(w)
		}
		g, err := geom.UnmarshalWKT(c.str("text"), geom.NoValidate{})
		if err != nil {
			ev["reerr"] = errStr(err)
			return ev
		}
		ev["re"] = projectTree(g)
		return ev
	}
	tree := asTree(c["tree"])
	g := buildTree(tree)
	ev["g"] = tree
	txt := g.AsText()
	toks, noexp := wktTokens(txt)
	ev["toks"], ev["noexp"] = toks, noexp
	ev["append"] = string(g.AppendWKT([]byte(prefix))) == prefix+txt
	rg, err := geom.UnmarshalWKT(txt, geom.NoValidate{})
	if err != nil {
		ev["reerr"] = errStr(err)
		return ev
	}
	ev["re"] = projectTree(rg)
	// the validating reader (the default): a geometry the specification knows to be valid must come back too
	if _, verr := geom.UnmarshalWKT(txt); verr != nil {
		ev["valerr"] = errStr(verr)
	}
	wg, err := geom.UnmarshalWKB(g.AsBinary(), geom.NoValidate{})
	if err != nil {
		panic(err)
	}
	ev["viawkb"] = projectTree(wg)
	ev["nt"] = !g.IsEmpty()
	return ev
}

func init() {
	register("wkt", &Family{Gen: wktGen, Exec: wktExec, OnPanic: wktOnPanic})
}
