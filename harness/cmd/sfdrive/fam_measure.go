package main

import (
	"math"
	"math/rand"

	"github.com/peterstace/simplefeatures/geom"
)

// Family "measure" (C14): Area (plain, signed, with transform), Length, Centroid.

var ctypes = []geom.CoordinatesType{geom.DimXY, geom.DimXYZ, geom.DimXYM, geom.DimXYZM}

func measureGen(r *rand.Rand, n int, tier string, emit func(Case)) {
	for i := 0; i < n+bigExtra(n); i++ {
		big := i >= n // large sizes come last: the cases before them are the ones every earlier run saw
		if !big && r.Intn(12) == 0 {
			emit(sliverCase(r))
			continue
		}
		l := &lgen{r: r, N: 3 + r.Intn(6)}
		if r.Intn(4) == 0 {
			l.N = 9 + r.Intn(8)
		}
		var g geom.Geometry
		sel := r.Intn(6)
		if big {
			l, sel = bigLattice(r), -1
		}
		switch sel {
		case -1:
			g = l.bigAny()
		case 0: // axis-aligned / Pythagorean lines: rational lineal centroid
			var pts []geom.XY
			p := l.pt()
			pts = append(pts, p)
			for j, m := 0, 1+r.Intn(5); j < m; j++ {
				switch r.Intn(3) {
				case 0:
					p.X = float64(r.Intn(l.N + 1))
				case 1:
					p.Y = float64(r.Intn(l.N + 1))
				default:
					q := geom.XY{X: p.X + 3, Y: p.Y + 4}
					if q.X <= float64(l.N) && q.Y <= float64(l.N) {
						p = q
					}
				}
				pts = append(pts, p)
			}
			ls := geom.NewLineString(seqOf(pts))
			if !genValid(ls) {
				continue
			}
			g = ls.AsGeometry()
		default:
			g = l.any(4)
		}
		if r.Intn(3) == 0 {
			g = l.variant(g)
		}
		mk := 0
		switch r.Intn(8) {
		case 0, 1:
			mk = 1
		case 2:
			mk = 2 // general-position float image: rotation by an arbitrary angle, non-dyadic scale
		case 3:
			mk = 3 + r.Intn(2) // power-of-two scale far from 1, with or without a large offset
		}
		c := pairCase(l, g, geom.Geometry{}, mk)
		delete(c, "wb")
		c["force"], c["ct"], c["ts"], c["tdx"], c["tdy"] = r.Intn(4), r.Intn(4), 1+r.Intn(4), r.Intn(9)-4, r.Intn(9)-4
		emit(c)
	}
}

func measureOnPanic(c Case) Event {
	if _, ok := c["kind"]; ok {
		return Event{"kind": "sliver", "k": 1, "hu": 1, "wkt": "", "fin": false, "cempty": false, "dxu": 0, "dyu": 0, "areafin": false}
	}
	return Event{"g": []*flat{}, "area2": 0, "sarea2": 0, "area2t": 0, "ts": 1, "lenn": 0, "cx": 0, "cy": 0, "cempty": false, "gp": false, "slen": 0, "scen": 0, "noarea": false, "rev": []int{0, 0, 0}}
}

func roundInt(v float64) int {
	x := math.Round(v)
	if math.IsNaN(x) || math.Abs(x) >= 1<<31 {
		panic("value out of range")
	}
	return int(x)
}

// roundM projects a measure onto the integers of the specification. On the lattices of this family every expected
// value is below 2^15, so a NaN, an infinity or a value beyond 2^18 is itself the observation: it is reported as a
// sentinel outside every expected value (small enough for TLC's 32-bit products), which the specification rejects.
func roundM(v float64) int {
	x := math.Round(v)
	const lim = 1 << 18
	switch {
	case math.IsNaN(x):
		return -lim - 7
	case x >= lim:
		return lim
	case x <= -lim:
		return -lim
	}
	return int(x)
}

func measureExec(c Case) Event {
	if _, ok := c["kind"]; ok {
		return sliverMeasure(c)
	}
	ev := measureOnPanic(c)
	g0 := mustWKT(c.str("wa"))
	switch c.num("force") {
	case 1:
		g0 = g0.ForceCW()
	case 2:
		g0 = g0.ForceCCW()
	case 3:
		g0 = g0.Reverse()
	}
	g0 = g0.ForceCoordinatesType(ctypes[c.num("ct")])
	f, gp := mapOf(c)
	inv := invOf(c)
	ev["gp"] = gp
	// the error the property grants (1e-9 of the coordinate magnitude), expressed in the units of the recorded values:
	// 1/256 lattice unit for the length, 1/1024 for the centroid; with an offset the area tolerance (1e-9 magnitude^2)
	// exceeds every area of the image, so the area clauses are not judged there
	mag := 0.0
	if seq := imageOf(g0, f).DumpCoordinates(); true {
		for i := 0; i < seq.Length(); i++ {
			p := seq.GetXY(i)
			mag = math.Max(mag, math.Max(math.Abs(p.X), math.Abs(p.Y)))
		}
	}
	ev["slen"], ev["scen"] = int(math.Ceil(256e-9*mag/scaleOf(c))), int(math.Ceil(1024e-9*mag/scaleOf(c)))
	if t := c.list("t"); t != nil && (hexFloat(t[1]) != 0 || hexFloat(t[2]) != 0) && hexFloat(t[0]) < 1 {
		ev["noarea"] = true
	}
	s := scaleOf(c)
	g := imageOf(g0, f)
	ev["g"] = parts(g0)
	sgn := 1.0
	if t := c.list("t"); t != nil {
		// an orientation-reversing symmetry flips the sign of the signed area
		sym := Case{"s": t[3]}.num("s")
		if (sym&1 != 0) != (sym&2 != 0) != (sym&4 != 0) {
			sgn = -1
		}
	}
	// Reverse negates the signed area of its result and leaves its argument alone (measured before, on the result, after)
	sb := roundM(2 * g.Area(geom.SignedArea) / (s * s))
	rv := g.Reverse()
	ev["rev"] = []int{sb, roundM(2 * rv.Area(geom.SignedArea) / (s * s)), roundM(2 * g.Area(geom.SignedArea) / (s * s))}
	ev["area2"] = roundM(2 * g.Area() / (s * s))
	ev["sarea2"] = roundM(sgn * 2 * g.Area(geom.SignedArea) / (s * s))
	ts, dx, dy := float64(c.num("ts")), float64(c.num("tdx")), float64(c.num("tdy"))
	ev["ts"] = c.num("ts")
	ev["area2t"] = roundM(2 * g.Area(geom.WithTransform(func(p geom.XY) geom.XY {
		return geom.XY{X: ts*p.X + dx, Y: ts*p.Y + dy}
	})) / (s * s))
	ev["lenn"] = int(math.Floor(g.Length() / s * 256))
	cen := g.Centroid()
	if xy, ok := cen.XY(); ok {
		if inv != nil {
			xy = inv(xy)
		}
		ev["cx"], ev["cy"] = roundM(xy.X*1024), roundM(xy.Y*1024)
	} else {
		ev["cempty"] = true
	}
	ev["nt"] = !g.IsEmpty()
	return ev
}

func init() {
	register("measure", &Family{Gen: measureGen, Exec: measureExec, OnPanic: measureOnPanic})
}
