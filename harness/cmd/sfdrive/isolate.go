package main

import (
	"bufio"
	"encoding/json"
	"fmt"
	"io"
	"os"
	"os/exec"
	"syscall"
	"time"
)

const workerAddressSpace = 3 << 30 // bytes: a count field that reserves gigabytes kills the worker, not the recorder
const workerTimeout = 20 * time.Second
const maxDeaths = 25 // after this many killed workers the recording stops early: enough to report

// workerMain: child side. One case per line in, one event per line out.
func workerMain(f *Family) {
	lim := syscall.Rlimit{Cur: workerAddressSpace, Max: workerAddressSpace}
	if err := syscall.Setrlimit(syscall.RLIMIT_AS, &lim); err != nil {
		fmt.Fprintln(os.Stderr, "setrlimit:", err)
		os.Exit(3)
	}
	in := bufio.NewReaderSize(os.Stdin, 1<<20)
	out := bufio.NewWriter(os.Stdout)
	for {
		line, err := in.ReadBytes('\n')
		if len(line) > 1 {
			c, derr := decodeCase(line)
			if derr != nil {
				fmt.Fprintln(os.Stderr, "worker: bad case:", derr)
				os.Exit(3)
			}
			ev := execSafe(f, c)
			b, merr := json.Marshal(ev)
			if merr != nil {
				fmt.Fprintln(os.Stderr, "worker: marshal:", merr)
				os.Exit(3)
			}
			out.Write(b)
			out.WriteByte('\n')
			out.Flush()
		}
		if err != nil {
			return
		}
	}
}

// isolator: parent side.
type isolator struct {
	deaths int
	fam    string
	cmd    *exec.Cmd
	in     io.WriteCloser
	out    *bufio.Reader
	errb   *tailBuffer
}

type tailBuffer struct{ b []byte }

func (t *tailBuffer) Write(p []byte) (int, error) {
	t.b = append(t.b, p...)
	if len(t.b) > 8192 {
		t.b = t.b[len(t.b)-8192:]
	}
	return len(p), nil
}

func (i *isolator) start() {
	cmd := exec.Command(os.Args[0], "worker", i.fam)
	in, _ := cmd.StdinPipe()
	out, _ := cmd.StdoutPipe()
	i.errb = &tailBuffer{}
	cmd.Stderr = i.errb
	if err := cmd.Start(); err != nil {
		fmt.Fprintln(os.Stderr, "cannot start worker:", err)
		os.Exit(2)
	}
	i.cmd, i.in, i.out = cmd, in, bufio.NewReaderSize(out, 1<<20)
}

func (i *isolator) stop() {
	if i.cmd != nil {
		i.in.Close()
		i.cmd.Process.Kill()
		i.cmd.Wait()
		i.cmd = nil
	}
}

func (i *isolator) exec(f *Family, c Case) Event {
	if i.cmd == nil {
		i.start()
	}
	b, _ := json.Marshal(c)
	type res struct {
		line []byte
		err  error
	}
	ch := make(chan res, 1)
	go func() {
		if _, err := i.in.Write(append(b, '\n')); err != nil {
			ch <- res{nil, err}
			return
		}
		line, err := i.out.ReadBytes('\n')
		ch <- res{line, err}
	}()
	dead := func(outcome string) Event {
		i.deaths++
		i.cmd.Process.Kill()
		state, _ := i.cmd.Process.Wait()
		stderr := string(i.errb.b)
		i.cmd = nil
		ev := Event{}
		if f.OnPanic != nil {
			ev = f.OnPanic(c)
		}
		ev["panic"] = ""
		ev["outcome"] = outcome
		ev["died"] = fmt.Sprintf("%v", state)
		if len(stderr) > 1500 {
			stderr = stderr[:700] + " ... " + stderr[len(stderr)-700:]
		}
		ev["stderr"] = stderr
		return ev
	}
	select {
	case r := <-ch:
		if r.err != nil || len(r.line) == 0 {
			return dead("crash")
		}
		var ev Event
		dec := json.NewDecoder(bytesReaderOf(r.line))
		dec.UseNumber()
		if err := dec.Decode(&ev); err != nil {
			return dead("crash")
		}
		return ev
	case <-time.After(workerTimeout):
		return dead("timeout")
	}
}
