package main

import (
	"bytes"
	"encoding/json"
	"math"
	"math/rand"
	"reflect"
	"sort"
	"strconv"
	"strings"

	"github.com/peterstace/simplefeatures/geom"
)

// Family "geojson" (C06).

// docOf converts a generically parsed JSON value into the abstract document of GeoJSON.tla:
// {type, keys, coordinates, geometries}; numbers become bits tokens. odd=true if the value does not have the
// structure the grammar of the specification covers (null / missing members / non-array coordinates).
func docOf(v interface{}) (doc Event, odd bool) {
	doc = Event{"type": "", "keys": []string{}, "coordinates": []string{}, "geometries": []Event{}}
	obj, ok := v.(map[string]interface{})
	if !ok {
		return doc, true
	}
	keys := []string{}
	for k := range obj {
		keys = append(keys, k)
	}
	sort.Strings(keys)
	doc["keys"] = keys
	t, ok := obj["type"].(string)
	if !ok {
		return doc, true
	}
	doc["type"] = t
	depth := map[string]int{"Point": 0, "LineString": 1, "MultiPoint": 1, "Polygon": 2, "MultiLineString": 2, "MultiPolygon": 3}
	if t == "GeometryCollection" {
		gs, ok := obj["geometries"].([]interface{})
		if !ok {
			return doc, true
		}
		out := []Event{}
		for _, g := range gs {
			d, o := docOf(g)
			odd = odd || o
			out = append(out, d)
		}
		doc["geometries"] = out
		return doc, odd
	}
	d, known := depth[t]
	if !known {
		return doc, false // unknown type: the specification rejects it
	}
	c, ok := obj["coordinates"]
	if !ok {
		return doc, true
	}
	var conv func(x interface{}, d int) (interface{}, bool)
	conv = func(x interface{}, d int) (interface{}, bool) {
		arr, ok := x.([]interface{})
		if !ok {
			return nil, false
		}
		if d == 0 {
			out := []string{}
			for _, n := range arr {
				num, ok := n.(json.Number)
				if !ok {
					return nil, false
				}
				f, err := strconv.ParseFloat(num.String(), 64)
				if err != nil {
					return nil, false
				}
				out = append(out, tok(f))
			}
			return out, true
		}
		out := []interface{}{}
		for _, y := range arr {
			z, ok := conv(y, d-1)
			if !ok {
				return nil, false
			}
			out = append(out, z)
		}
		return out, true
	}
	cc, ok := conv(c, d)
	if !ok {
		return doc, true
	}
	doc["coordinates"] = cc
	return doc, false
}

func parseGeneric(b []byte) (interface{}, error) {
	dec := json.NewDecoder(bytes.NewReader(b))
	dec.UseNumber()
	var v interface{}
	if err := dec.Decode(&v); err != nil {
		return nil, err
	}
	if dec.More() {
		return nil, strconv.ErrSyntax
	}
	return v, nil
}

// intTree: the tree with integer ordinates (when every ordinate is a small integer), M dropped etc. applied by the caller.
func smallInts(v interface{}) bool {
	switch x := v.(type) {
	case json.Number:
		f, err := strconv.ParseFloat(x.String(), 64)
		return err == nil && f == math.Trunc(f) && math.Abs(f) < 1e6 && !strings.ContainsAny(x.String(), ".eE") && x.String() != "-0"
	case []interface{}:
		for _, y := range x {
			if !smallInts(y) {
				return false
			}
		}
		return true
	case map[string]interface{}:
		for _, y := range x {
			if !smallInts(y) {
				return false
			}
		}
		return true
	case string:
		return true
	}
	return false
}

// intTreeOf: tree {t, c} with integer ordinates from a geometry (as it will be after the format's losses).
func intTreeOf(g geom.Geometry) Event {
	ct := g.CoordinatesType()
	pt := func(c geom.Coordinates) []int {
		out := []int{int(c.X), int(c.Y)}
		if ct.Is3D() {
			out = append(out, int(c.Z))
		}
		return out
	}
	seq := func(s geom.Sequence) [][]int {
		out := [][]int{}
		for i := 0; i < s.Length(); i++ {
			out = append(out, pt(s.Get(i)))
		}
		return out
	}
	poly := func(p geom.Polygon) [][][]int {
		out := [][][]int{}
		for _, r := range p.DumpRings() {
			out = append(out, seq(r.Coordinates()))
		}
		return out
	}
	ev := Event{"t": g.Type().String(), "c": []int{}}
	switch g.Type() {
	case geom.TypePoint:
		if c, ok := g.MustAsPoint().Coordinates(); ok {
			ev["c"] = pt(c)
		}
	case geom.TypeLineString:
		ev["c"] = seq(g.MustAsLineString().Coordinates())
	case geom.TypePolygon:
		ev["c"] = poly(g.MustAsPolygon())
	case geom.TypeMultiPoint:
		mp := g.MustAsMultiPoint()
		out := [][]int{}
		for i := 0; i < mp.NumPoints(); i++ {
			if c, ok := mp.PointN(i).Coordinates(); ok {
				out = append(out, pt(c))
			}
		}
		ev["c"] = out
	case geom.TypeMultiLineString:
		m := g.MustAsMultiLineString()
		out := [][][]int{}
		for i := 0; i < m.NumLineStrings(); i++ {
			out = append(out, seq(m.LineStringN(i).Coordinates()))
		}
		ev["c"] = out
	case geom.TypeMultiPolygon:
		m := g.MustAsMultiPolygon()
		out := [][][][]int{}
		for i := 0; i < m.NumPolygons(); i++ {
			out = append(out, poly(m.PolygonN(i)))
		}
		ev["c"] = out
	case geom.TypeGeometryCollection:
		gc := g.MustAsGeometryCollection()
		out := []Event{}
		for i := 0; i < gc.NumGeometries(); i++ {
			out = append(out, intTreeOf(gc.GeometryN(i)))
		}
		ev["c"] = out
	}
	return ev
}

func geojsonGen(r *rand.Rand, n int, tier string, emit func(Case)) {
	for i := 0; i < n+bigExtra(n); i++ { // large sizes come last
		if i%10 == 9 {
			emit(Case{"kind": "feature", "id": r.Intn(4), "props": r.Intn(4), "foreign": r.Intn(3), "nfeat": r.Intn(3),
				"tree": (&treeGen{r: r, finite: true, simple: true, big: i >= n}).tree(0, ctypes[r.Intn(2)], "")})
			continue
		}
		tg := &treeGen{r: r, finite: true, simple: i%2 == 0, big: i >= n}
		kind := ""
		if i < 28 {
			kind = typeNames[i%7]
		}
		emit(Case{"kind": "enc", "tree": tg.tree(0, ctypes[(i/7)%4], kind)})
	}
}

func geojsonOnPanic(c Case) Event {
	e := Event{"t": "Point", "ct": "XY", "c": []string{}}
	d := Event{"type": "", "keys": []string{}, "coordinates": []string{}, "geometries": []Event{}}
	return Event{"kind": c.str("kind"), "g": e, "err": "", "jsonvalid": false, "doc": d, "dec": e, "decerr": "", "rawok": false,
		"raw": Event{"type": "none"}, "gi": Event{"t": "none", "c": []int{}}, "odd": false, "into": []bool{}, "typenames": typeNames, "valid": false,
		"got": "", "want": "", "gotfc": "", "wantfc": "", "stable": true}
}

func unmarshalInto(i int, b []byte) error {
	switch i {
	case 0:
		var v geom.Point
		return json.Unmarshal(b, &v)
	case 1:
		var v geom.LineString
		return json.Unmarshal(b, &v)
	case 2:
		var v geom.Polygon
		return json.Unmarshal(b, &v)
	case 3:
		var v geom.MultiPoint
		return json.Unmarshal(b, &v)
	case 4:
		var v geom.MultiLineString
		return json.Unmarshal(b, &v)
	case 5:
		var v geom.MultiPolygon
		return json.Unmarshal(b, &v)
	}
	var v geom.GeometryCollection
	return json.Unmarshal(b, &v)
}

func canonJSON(v interface{}) string {
	b, err := json.Marshal(v)
	if err != nil {
		return "marshal-error:" + err.Error()
	}
	// normalise numbers: re-parse generically and marshal again (float64 everywhere, sorted keys)
	var g interface{}
	if err := json.Unmarshal(b, &g); err != nil {
		return "reparse-error"
	}
	b2, _ := json.Marshal(g)
	return string(b2)
}

func geojsonExec(c Case) Event {
	ev := geojsonOnPanic(c)
	switch c.str("kind") {
	case "doc":
		text := strings.ReplaceAll(c.str("text"), `"NULL"`, "null")
		v, err := parseGeneric([]byte(text))
		if err != nil {
			panic("generated document is not JSON: " + err.Error())
		}
		doc, odd := docOf(v)
		ev["doc"], ev["odd"] = doc, odd
		g, err := geom.UnmarshalGeoJSON([]byte(text), geom.NoValidate{})
		if err != nil {
			ev["decerr"] = errStr(err)
		} else {
			ev["dec"] = projectTree(g)
			ev["valid"] = g.Validate() == nil
		}
		into := make([]bool, 7)
		for i := range into {
			into[i] = unmarshalInto(i, []byte(text)) == nil
		}
		ev["into"] = into
		return ev
	case "feature":
		g := buildTree(asTree(c["tree"]))
		ev["valid"] = g.Validate() == nil
		ids := []interface{}{nil, "abc", 7, 2.5}
		props := []map[string]interface{}{nil, {}, {"a": 1, "b": "x", "c": []interface{}{1, "two", nil}}, {"d": map[string]interface{}{"e": nil, "f": 1.5}}}
		foreign := []map[string]interface{}{nil, {"bbox": []interface{}{0, 0, 1, 1}}, {"zzz": "q", "title": map[string]interface{}{"x": true}}}
		f := geom.GeoJSONFeature{Geometry: g, ID: ids[c.num("id")], Properties: props[c.num("props")], ForeignMembers: foreign[c.num("foreign")]}
		b, err := json.Marshal(f)
		if err != nil {
			ev["err"] = errStr(err)
			return ev
		}
		ev["jsonvalid"] = json.Valid(b)
		var f2 geom.GeoJSONFeature
		if err := json.Unmarshal(b, &f2); err != nil {
			ev["err"] = errStr(err)
			return ev
		}
		part := func(f geom.GeoJSONFeature) string {
			p := f.Properties
			if p == nil {
				p = map[string]interface{}{}
			}
			fm := f.ForeignMembers
			if fm == nil {
				fm = map[string]interface{}{}
			}
			gg, _ := geom.UnmarshalGeoJSON(mustJSON(f.Geometry), geom.NoValidate{})
			return canonJSON([]interface{}{gg.AsText(), f.ID, p, fm})
		}
		ev["want"], ev["got"] = part(f), part(f2)
		// decoding into a destination that already holds a decoded value replaces it (a reused variable in a decode loop)
		if err := json.Unmarshal(b, &f2); err != nil || part(f2) != part(f) {
			ev["got"] = "second decode into the same Feature: " + part(f2) + errStr(err)
		}
		fc := geom.GeoJSONFeatureCollection{}
		for i := 0; i < c.num("nfeat"); i++ {
			fc = append(fc, f)
		}
		fb, err := json.Marshal(fc)
		if err != nil {
			ev["err"] = errStr(err)
			return ev
		}
		var fc2 geom.GeoJSONFeatureCollection
		if err := json.Unmarshal(fb, &fc2); err != nil {
			ev["err"] = errStr(err)
			return ev
		}
		parts := func(fc geom.GeoJSONFeatureCollection) string {
			s := []string{}
			for _, f := range fc {
				s = append(s, part(f))
			}
			return strings.Join(s, "|") + "#" + strconv.Itoa(len(fc))
		}
		ev["wantfc"], ev["gotfc"] = parts(fc), parts(fc2)
		if err := json.Unmarshal(fb, &fc2); err != nil || parts(fc2) != parts(fc) {
			ev["gotfc"] = "second decode into the same FeatureCollection: " + parts(fc2) + errStr(err)
		}
		_ = reflect.DeepEqual
		return ev
	}
	tree := asTree(c["tree"])
	g := buildTree(tree)
	ev["g"] = tree
	b, err := g.MarshalJSON()
	if err != nil {
		ev["err"] = errStr(err)
		return ev
	}
	// a result belongs to the caller: later calls (on another value, on the same value) must leave it alone
	keep := append([]byte(nil), b...)
	_, _ = geom.XY{X: -7.25, Y: 3.5}.AsPoint().MarshalJSON()
	_, _ = geom.XY{X: 1, Y: 2}.AsPoint().AsGeometry().MarshalJSON()
	stable := bytes.Equal(b, keep)
	b2, _ := g.MarshalJSON() // and the same call again gives the same bytes
	ev["stable"] = stable && bytes.Equal(b2, keep)
	b = keep
	v, perr := parseGeneric(b)
	ev["jsonvalid"] = perr == nil && json.Valid(b)
	if perr != nil {
		return ev
	}
	doc, odd := docOf(v)
	ev["doc"] = doc
	if odd {
		ev["jsonvalid"] = false // structure outside the grammar: reported as not being GeoJSON
		return ev
	}
	dg, err := geom.UnmarshalGeoJSON(b, geom.NoValidate{})
	if err != nil {
		ev["decerr"] = errStr(err)
	} else {
		ev["dec"] = projectTree(dg)
	}
	if smallInts(v) {
		// the raw output itself, to be read by TLC's JSON parser; gi = what it must denote
		ev["rawok"] = true
		ev["raw"] = json.RawMessage(b)
		ev["gi"] = intTreeOf(g.ForceCoordinatesType(map[bool]geom.CoordinatesType{true: geom.DimXYZ, false: geom.DimXY}[g.CoordinatesType().Is3D()]))
	}
	ev["nt"] = !g.IsEmpty()
	return ev
}

func mustJSON(g geom.Geometry) []byte {
	b, err := g.MarshalJSON()
	if err != nil {
		panic(err)
	}
	return b
}

func init() {
	register("geojson", &Family{Gen: geojsonGen, Exec: geojsonExec, OnPanic: geojsonOnPanic})
}
