package main

import (
	"errors"
	"fmt"
	"math/rand"

	"github.com/peterstace/simplefeatures/rtree"
)

// Family "rtree" (C11): one case = one history: bulk load + searches with scripted callbacks.
//
// case: {n, layout, seed, searches, coord}
// event: evs = [Load{boxes,count,extent,tree}, Start{kind,q}, Cb{id,ret}*, Ret{res}, Nearest{q,found,id} ...]

func rtBox(b rtree.Box) []int { return []int{li(b.MinX), li(b.MinY), li(b.MaxX), li(b.MaxY)} }

func rtGenBoxes(r *rand.Rand, n, layout, coord int) []rtree.Box {
	out := make([]rtree.Box, 0, n)
	pt := func() (float64, float64) { return float64(r.Intn(coord)), float64(r.Intn(coord)) }
	for i := 0; i < n; i++ {
		var b rtree.Box
		x, y := pt()
		w, h := float64(r.Intn(coord/4+1)), float64(r.Intn(coord/4+1))
		switch layout {
		case 0: // general boxes
			b = rtree.Box{MinX: x, MinY: y, MaxX: x + w, MaxY: y + h}
		case 1: // points
			b = rtree.Box{MinX: x, MinY: y, MaxX: x, MaxY: y}
		case 2: // horizontal / vertical segments
			if r.Intn(2) == 0 {
				b = rtree.Box{MinX: x, MinY: y, MaxX: x + w, MaxY: y}
			} else {
				b = rtree.Box{MinX: x, MinY: y, MaxX: x, MaxY: y + h}
			}
		case 3: // duplicates and identical centres
			k := float64(r.Intn(3))
			c := float64(coord / 2)
			b = rtree.Box{MinX: c - k, MinY: c - k, MaxX: c + k, MaxY: c + k}
		case 7: // every item the same degenerate point (with the matching translation: the all-zero box)
			c := float64(coord / 2)
			b = rtree.Box{MinX: c, MinY: c, MaxX: c, MaxY: c}
		case 8: // item n/2 is the point (c, c) - the origin after the translation by -c, and with record id 0 the all-zero
			// entry - and every other item lies strictly to one side of it along one axis and on both sides along the
			// other (so that it is an extreme of its leaf without being the first entry): bounds and searches must count it
			c := float64(coord / 2)
			if i == n/2 {
				b = rtree.Box{MinX: c, MinY: c, MaxX: c, MaxY: c}
			} else {
				u := c - float64(coord/2) + float64(r.Intn(2*(coord/2)+1)) // both sides
				v := c + 1 + float64(r.Intn(coord/2))                      // strictly beyond
				if n%4 >= 2 {
					v = c - 1 - float64(r.Intn(coord/2))
				}
				x, y := u, v
				if n%2 == 1 {
					x, y = v, u
				}
				b = rtree.Box{MinX: x, MinY: y, MaxX: x, MaxY: y}
				if r.Intn(3) == 0 {
					b.MaxX, b.MaxY = x+float64(r.Intn(2)), y+float64(r.Intn(2))
					if n%4 >= 2 && n%2 == 0 && b.MaxY >= c { // stay strictly beyond
						b.MaxY = y
					}
					if n%4 >= 2 && n%2 == 1 && b.MaxX >= c {
						b.MaxX = x
					}
				}
			}
		case 4: // collinear
			b = rtree.Box{MinX: x, MinY: 3, MaxX: x + w, MaxY: 3}
		case 5: // clustered
			cx, cy := float64((i%3)*coord/3), float64((i%2)*coord/2)
			dx, dy := float64(r.Intn(3)), float64(r.Intn(3))
			b = rtree.Box{MinX: cx + dx, MinY: cy + dy, MaxX: cx + dx + float64(r.Intn(2)), MaxY: cy + dy + float64(r.Intn(2))}
		default: // heavy overlap
			b = rtree.Box{MinX: float64(r.Intn(3)), MinY: float64(r.Intn(3)), MaxX: float64(coord - r.Intn(3)), MaxY: float64(coord - r.Intn(3))}
		}
		out = append(out, b)
	}
	return out
}

func rtGen(r *rand.Rand, n int, tier string, emit func(Case)) {
	// sizes around every fan-out boundary exhaustively, then larger ones
	sizes := []int{}
	for s := 0; s <= 40; s++ {
		sizes = append(sizes, s)
	}
	big := []int{41, 63, 64, 65, 100, 255, 256, 257, 500, 1000, 2000, 5000}
	k := 0
	for i := 0; i < n; i++ {
		var sz int
		if i%8 == 7 && tier == "thorough" {
			sz = big[r.Intn(len(big))]
		} else if i%50 == 49 {
			// a few large trees in every tier: several internal levels, a search front of hundreds of entries
			sz = []int{600, 1000, 1500, 2000, 3000}[(i/50)%5]
		} else if i%16 == 15 {
			sz = big[r.Intn(6)]
		} else {
			sz = sizes[k%len(sizes)]
			k++
		}
		coord := 6 + r.Intn(10)
		if sz > 100 {
			coord = 40 + r.Intn(200)
		}
		searches := 6
		if sz <= 12 {
			searches = 3*sz + 6 // every stop position for small trees
		}
		idbase := []int{1, 0, 0, -5, 100000}[r.Intn(5)]
		off := []int{0, 0, -coord / 2, -coord, 1000}[r.Intn(5)]
		layout := r.Intn(7)
		if r.Intn(12) == 0 {
			layout = 7
			if r.Intn(2) == 0 {
				off = -(coord / 2)
			}
		}
		if i%10 == 4 {
			layout, idbase, off = 8, -(sz / 2), -(coord / 2)
		}
		emit(Case{"n": sz, "layout": layout, "seed": r.Int63(), "searches": searches, "coord": coord, "idbase": idbase, "off": off})
	}
}

var errUser = errors.New("user error")

func rtOnPanic(c Case) Event { return Event{"evs": []Event{}} }

func rtExec(c Case) Event {
	r := rand.New(rand.NewSource(int64(c.num("seed"))))
	n, coord := c.num("n"), c.num("coord")
	boxes := rtGenBoxes(r, n, c.num("layout"), coord)
	// The library sees record ids idbase, idbase+1, ... (0, negative and large ids included) and every box and query
	// translated by (off, off) (so that the origin and negative ordinates occur); the specification sees ids 1..n and
	// the untranslated integers: both maps are bijections applied uniformly to everything reported.
	idbase, off := 1, 0.0
	if _, ok := c["idbase"]; ok {
		idbase, off = c.num("idbase"), float64(c.num("off"))
	}
	shift := func(b rtree.Box) rtree.Box {
		return rtree.Box{MinX: b.MinX + off, MinY: b.MinY + off, MaxX: b.MaxX + off, MaxY: b.MaxY + off}
	}
	unshift := func(b rtree.Box) rtree.Box {
		return rtree.Box{MinX: b.MinX - off, MinY: b.MinY - off, MaxX: b.MaxX - off, MaxY: b.MaxY - off}
	}
	items := make([]rtree.BulkItem, n)
	bl := [][]int{}
	for i, b := range boxes {
		items[i] = rtree.BulkItem{Box: shift(b), RecordID: i + idbase}
		bl = append(bl, rtBox(b))
	}
	tree := rtree.BulkLoad(items)
	var evs []Event
	load := Event{"e": "Load", "boxes": bl, "count": tree.Count(), "extent": []int{}}
	if ext, ok := tree.Extent(); ok {
		load["extent"] = rtBox(unshift(ext))
	}
	nodes := []Event{}
	for _, vn := range tree.VerifDump() {
		ents := []Event{}
		for j, b := range vn.Boxes {
			e := Event{"box": rtBox(unshift(b)), "child": 0, "rec": 0}
			if vn.Leaf {
				e["rec"] = vn.Records[j] - idbase + 1
			} else {
				e["child"] = vn.Children[j]
			}
			ents = append(ents, e)
		}
		nodes = append(nodes, Event{"leaf": vn.Leaf, "ents": ents})
	}
	load["tree"] = nodes
	evs = append(evs, load)

	queryBox := func() rtree.Box {
		x, y := float64(r.Intn(coord+4)-2), float64(r.Intn(coord+4)-2)
		switch r.Intn(6) {
		case 0: // degenerate point
			return rtree.Box{MinX: x, MinY: y, MaxX: x, MaxY: y}
		case 1: // enclosing
			return rtree.Box{MinX: -5, MinY: -5, MaxX: float64(2*coord + 5), MaxY: float64(2*coord + 5)}
		case 2: // disjoint
			return rtree.Box{MinX: -20, MinY: -20, MaxX: -10, MaxY: -10}
		case 3: // edge / corner touching an item
			if n > 0 {
				b := boxes[r.Intn(n)]
				return rtree.Box{MinX: b.MaxX, MinY: b.MaxY, MaxX: b.MaxX + float64(r.Intn(3)), MaxY: b.MaxY + float64(r.Intn(3))}
			}
		}
		return rtree.Box{MinX: x, MinY: y, MaxX: x + float64(r.Intn(coord/2+1)), MaxY: y + float64(r.Intn(coord/2+1))}
	}
	for s, ns := 0, c.num("searches"); s < ns; s++ {
		q := queryBox()
		kind := "range"
		if r.Intn(2) == 0 {
			kind = "prio"
		}
		// script: at visit position stopAt answer with stopRet (position beyond the end: never)
		stopAt := r.Intn(n + 2)
		if n <= 12 {
			stopAt = s % (n + 2)
		}
		stopRet := []string{"stop", "wrapped", "err"}[r.Intn(3)]
		evs = append(evs, Event{"e": "Start", "kind": kind, "q": rtBox(q)})
		pos := 0
		cb := func(id int) error {
			ret := "cont"
			if pos == stopAt {
				ret = stopRet
			}
			pos++
			evs = append(evs, Event{"e": "Cb", "id": id - idbase + 1, "ret": ret})
			switch ret {
			case "stop":
				return rtree.Stop
			case "wrapped":
				return fmt.Errorf("wrapped: %w", rtree.Stop)
			case "err":
				return errUser
			}
			return nil
		}
		var err error
		if kind == "range" {
			err = tree.RangeSearch(shift(q), cb)
		} else {
			err = tree.PrioritySearch(shift(q), cb)
		}
		res := "nil"
		switch {
		case err == errUser:
			res = "err"
		case err != nil:
			res = "other"
		}
		evs = append(evs, Event{"e": "Ret", "res": res})
		if s%3 == 0 {
			nq := queryBox()
			id, found := tree.Nearest(shift(nq))
			if found {
				id = id - idbase + 1
			}
			evs = append(evs, Event{"e": "Nearest", "q": rtBox(nq), "found": found, "id": id})
		}
	}
	return Event{"evs": evs, "nt": n > 4, "nevents": len(evs)}
}

func init() {
	register("rtree", &Family{Gen: rtGen, Exec: rtExec, OnPanic: rtOnPanic})
}
