package main

import (
	"math"
	"math/rand"

	"github.com/peterstace/simplefeatures/geom"
)

// Family "overlay" (C01): Union, Intersection, Difference, SymmetricDifference, UnaryUnion, UnionMany.
//
// case: {op, wa, wb | ws (list, for unionmany), N, t | rot}
// event: op (union|inter|diff|symdiff as judged), a, b (leaf flats of the lattice preimages),
//        res (flat of the result mapped back to the lattice frame, ordinates * 2^16), rtype, rvalid, err, gp

const overlayK = 65536

type sflat struct {
	Pts   [][]int     `json:"pts"`
	Lines [][][]int   `json:"lines"`
	Areas [][][][]int `json:"areas"`
}

func scaledSeq(s geom.Sequence, inv func(geom.XY) geom.XY) [][]int {
	out := make([][]int, 0, s.Length())
	for i := 0; i < s.Length(); i++ {
		xy := s.GetXY(i)
		if inv != nil {
			xy = inv(xy)
		}
		out = append(out, []int{scaled(xy.X, overlayK), scaled(xy.Y, overlayK)})
	}
	return out
}

func scaledFlat(g geom.Geometry, inv func(geom.XY) geom.XY) *flat {
	f := newFlat()
	var rec func(g geom.Geometry)
	rec = func(g geom.Geometry) {
		switch g.Type() {
		case geom.TypeGeometryCollection:
			gc := g.MustAsGeometryCollection()
			for i := 0; i < gc.NumGeometries(); i++ {
				rec(gc.GeometryN(i))
			}
		case geom.TypePoint:
			if !g.IsEmpty() {
				f.Pts = append(f.Pts, scaledSeq(g.MustAsPoint().DumpCoordinates(), inv)...)
			}
		case geom.TypeMultiPoint:
			f.Pts = append(f.Pts, scaledSeq(g.MustAsMultiPoint().Coordinates(), inv)...)
		case geom.TypeLineString:
			if !g.IsEmpty() {
				f.Lines = append(f.Lines, scaledSeq(g.MustAsLineString().Coordinates(), inv))
			}
		case geom.TypeMultiLineString:
			m := g.MustAsMultiLineString()
			for i := 0; i < m.NumLineStrings(); i++ {
				rec(m.LineStringN(i).AsGeometry())
			}
		case geom.TypePolygon:
			p := g.MustAsPolygon()
			if !p.IsEmpty() {
				rings := [][][]int{}
				for _, r := range p.DumpRings() {
					rings = append(rings, scaledSeq(r.Coordinates(), inv))
				}
				f.Areas = append(f.Areas, rings)
			}
		case geom.TypeMultiPolygon:
			m := g.MustAsMultiPolygon()
			for i := 0; i < m.NumPolygons(); i++ {
				rec(m.PolygonN(i).AsGeometry())
			}
		}
	}
	rec(g)
	return f
}

// invOf: the inverse of the case's map (to bring results back into the lattice frame).
func invOf(c Case) func(geom.XY) geom.XY {
	if t := c.list("t"); t != nil {
		sm := simil{S: hexFloat(t[0]), Tx: hexFloat(t[1]), Ty: hexFloat(t[2]), Sym: Case{"s": t[3]}.num("s")}
		return sm.inv
	}
	if t := c.list("rot"); t != nil {
		th, s, tx, ty := hexFloat(t[0]), hexFloat(t[1]), hexFloat(t[2]), hexFloat(t[3])
		cs, sn := cosSin(th)
		return func(p geom.XY) geom.XY {
			x, y := (p.X-tx)/s, (p.Y-ty)/s
			return geom.XY{X: cs*x + sn*y, Y: -sn*x + cs*y}
		}
	}
	return nil
}

var overlayOps = []string{"union", "inter", "diff", "symdiff"}

func overlayGen(r *rand.Rand, n int, tier string, emit func(Case)) {
	for i := 0; i < n; i++ {
		l := &lgen{r: r, N: 3 + r.Intn(4)}
		mk := 0
		switch r.Intn(8) {
		case 0, 1:
			mk = 1
		case 2:
			mk = 2
		case 3:
			mk = 3 // power-of-two scale far from 1: same exact degeneracies, magnitude 1e-12 .. 1e9
		}
		if i%10 == 9 {
			// laws on large lattices (ordinates up to 2^10): overlapping geometries of every type
			big := &lgen{r: r, N: []int{16, 64, 256, 1024}[r.Intn(4)]}
			emit(Case{"op": "laws", "wa": big.any(5).AsText(), "wb": big.any(5).AsText(), "N": big.N})
			continue
		}
		var c Case
		switch k := r.Intn(12); {
		case k == 0:
			c = pairCase(l, l.any(3), geom.Geometry{}, mk)
			c["op"] = "unary"
		case k == 1:
			var ws []string
			for j, m := 0, r.Intn(5); j < m; j++ {
				ws = append(ws, l.any(5).AsText())
			}
			c = pairCase(l, geom.Geometry{}, geom.Geometry{}, mk)
			c["op"], c["ws"] = "many", ws
			delete(c, "wa")
			delete(c, "wb")
		default:
			var a, b geom.Geometry
			if i < 49 {
				ta, tb := i/7, i%7
				a, b = l.collection(0), l.collection(0)
				if ta < 6 {
					a = l.leafOfType(ta)
				}
				if tb < 6 {
					b = l.leafOfType(tb)
				}
			} else {
				a, b = l.any(4), l.any(4)
			}
			c = pairCase(l, a, b, mk)
			c["op"] = overlayOps[r.Intn(4)]
			if r.Intn(6) == 0 {
				c["op"] = "dcel"
				delete(c, "t")
				delete(c, "rot")
			}
		}
		emit(c)
	}
	for i := 0; i < bigExtra(n); i++ { // large sizes
		if i%2 == 0 { // the Boolean-algebra laws on a wide lattice
			l := bigLattice(r)
			a, b := l.bigPair()
			emit(Case{"op": "laws", "wa": a.AsText(), "wb": b.AsText(), "N": l.N})
			continue
		}
		l := bigLatticeTo(r, 8, 9) // against the exact arrangement, whose arithmetic allows no more
		a, b := l.bigPair()
		c := pairCase(l, a, b, []int{0, 0, 0, 1, 2, 3}[r.Intn(6)])
		c["op"] = overlayOps[r.Intn(4)]
		emit(c)
	}
}

func overlayOnPanic(c Case) Event {
	_, gp := mapOf(c)
	return Event{"kind": "op", "op": "union", "a": []*flat{}, "b": []*flat{}, "res": newFlat(), "rtype": "", "rvalid": false, "err": "", "gp": gp,
		"areas": []int{}, "eq": []bool{}, "valid": false,
		"dcel": Event{"verts": []Event{}, "edges": []Event{}, "faces": []Event{}}}
}

func bools(b [2]bool) []bool { return []bool{b[0], b[1]} }

// dcelEvent exports the real overlay structure of (a, b) through the verif hook.  Ordinates are logged as integers
// (lattice) where they are; other points are logged rounded and the edge is marked as not being on the lattice.
func dcelEvent(a, b geom.Geometry) Event {
	d := geom.VerifOverlayDump(a, b)
	isInt := func(p geom.XY) bool {
		return p.X == math.Trunc(p.X) && p.Y == math.Trunc(p.Y) && math.Abs(p.X) < 1e6 && math.Abs(p.Y) < 1e6
	}
	pt := func(p geom.XY) []int { return []int{int(math.Round(p.X * 1024)), int(math.Round(p.Y * 1024))} }
	ipt := func(p geom.XY) []int { return []int{int(p.X), int(p.Y)} }
	verts, edges, faces := []Event{}, []Event{}, []Event{}
	for _, v := range d.Vertices {
		inc := v.Incidents
		if inc == nil {
			inc = []int{}
		}
		verts = append(verts, Event{"xy": pt(v.XY), "src": bools(v.Src), "inset": bools(v.InSet), "incidents": inc})
	}
	for _, e := range d.HalfEdges {
		lattice := true
		for _, p := range e.Seq {
			lattice = lattice && isInt(p)
		}
		seq := [][]int{}
		for _, p := range e.Seq {
			if lattice && len(e.Seq) == 2 {
				seq = append(seq, ipt(p))
			} else {
				seq = append(seq, pt(p))
			}
		}
		// vertex coordinates are always logged scaled (x1024); for the end point comparison the spec uses seqs
		edges = append(edges, Event{"origin": e.Origin, "twin": e.Twin, "next": e.Next, "prev": e.Prev, "face": e.Face,
			"srcedge": bools(e.SrcEdge), "srcface": bools(e.SrcFace), "inset": bools(e.InSet), "seq": seq, "ends": [][]int{pt(e.Seq[0]), pt(e.Seq[len(e.Seq)-1])},
			"lattice": lattice && len(e.Seq) == 2})
	}
	for _, f := range d.Faces {
		faces = append(faces, Event{"cycle": f.Cycle, "inset": bools(f.InSet)})
	}
	return Event{"verts": verts, "edges": edges, "faces": faces}
}

// lawsEvent: the Boolean-algebra laws on geometries with ordinates up to 2^10 (results are opaque to the specification).
func lawsEvent(c Case) Event {
	ev := overlayOnPanic(c)
	ev["kind"] = "laws"
	a, b := mustWKT(c.str("wa")), mustWKT(c.str("wb"))
	var firstErr error
	valid := true
	op := func(f func(x, y geom.Geometry) (geom.Geometry, error), x, y geom.Geometry) geom.Geometry {
		r, err := f(x, y)
		if err != nil && firstErr == nil {
			firstErr = err
		}
		if err == nil && r.Validate() != nil {
			valid = false
		}
		return r
	}
	aub, bua := op(geom.Union, a, b), op(geom.Union, b, a)
	anb, bna := op(geom.Intersection, a, b), op(geom.Intersection, b, a)
	amb, bma := op(geom.Difference, a, b), op(geom.Difference, b, a)
	axb, bxa := op(geom.SymmetricDifference, a, b), op(geom.SymmetricDifference, b, a)
	// re-composing results feeds float crossing points back in: those inputs are near-degenerate by construction
	// (a computed crossing point lies within an ulp of the edge it came from), which the property excludes - so an
	// error or an Equals verdict on them is not judged, only the area of a result that was produced
	rec, recErr := geom.Union(amb, anb)
	aua := op(geom.Union, a, a)
	uu, err := geom.UnaryUnion(a)
	if err != nil && firstErr == nil {
		firstErr = err
	}
	// the area of an operand's point set (members of a collection may overlap, and Area() adds member areas up)
	ub, err := geom.UnaryUnion(b)
	if err != nil && firstErr == nil {
		firstErr = err
	}
	if firstErr != nil {
		ev["err"] = errStr(firstErr)
		return ev
	}
	ar := []int{}
	if recErr != nil {
		rec = a // not judged
	}
	for _, g := range []geom.Geometry{uu, ub, aub, bua, anb, bna, amb, bma, axb, bxa, rec, aua} {
		ar = append(ar, roundInt(g.Area()*4))
	}
	eq := func(x, y geom.Geometry) bool {
		v, err := geom.Equals(x, y)
		return err == nil && v
	}
	ev["areas"] = ar
	ev["eq"] = []bool{eq(aub, bua), eq(anb, bna), eq(axb, bxa), eq(aua, uu)}
	ev["valid"] = valid
	ev["nt"] = !anb.IsEmpty()
	return ev
}

func overlayExec(c Case) Event {
	if c.str("op") == "laws" {
		return lawsEvent(c)
	}
	ev := overlayOnPanic(c)
	f, _ := mapOf(c)
	inv := invOf(c)
	op := c.str("op")
	var res geom.Geometry
	var err error
	switch op {
	case "many":
		var gs []geom.Geometry
		pa := []*flat{}
		for _, w := range c.strs("ws") {
			g0 := mustWKT(w)
			pa = append(pa, parts(g0)...)
			gs = append(gs, imageOf(g0, f))
		}
		ev["a"], ev["op"] = pa, "union"
		res, err = geom.UnionMany(gs)
	case "unary":
		a0 := mustWKT(c.str("wa"))
		ev["a"], ev["op"] = parts(a0), "union"
		res, err = geom.UnaryUnion(imageOf(a0, f))
	default:
		a0, b0 := mustWKT(c.str("wa")), mustWKT(c.str("wb"))
		ev["a"], ev["b"], ev["op"] = parts(a0), parts(b0), op
		a, b := imageOf(a0, f), imageOf(b0, f)
		if op == "dcel" {
			// internal state of the pipeline (no map applied: the structure is compared on the lattice itself)
			ev["kind"], ev["op"] = "dcel", "union"
			ev["dcel"] = dcelEvent(a0, b0)
			ev["nt"] = !a0.IsEmpty() && !b0.IsEmpty()
			return ev
		}
		switch op {
		case "union":
			res, err = geom.Union(a, b)
		case "inter":
			res, err = geom.Intersection(a, b)
		case "diff":
			res, err = geom.Difference(a, b)
		case "symdiff":
			res, err = geom.SymmetricDifference(a, b)
		default:
			panic("unknown op " + op)
		}
	}
	if err != nil {
		ev["err"] = errStr(err)
		return ev
	}
	ev["res"] = scaledFlat(res, inv)
	ev["rtype"] = res.Type().String()
	ev["rvalid"] = res.Validate() == nil
	ev["nt"] = len(ev["a"].([]*flat)) > 0 && len(ev["b"].([]*flat)) > 0 && !res.IsEmpty()
	return ev
}

func init() {
	register("overlay", &Family{Gen: overlayGen, Exec: overlayExec, OnPanic: overlayOnPanic})
}
