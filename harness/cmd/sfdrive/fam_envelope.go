package main

import (
	"math"
	"math/rand"

	"github.com/peterstace/simplefeatures/geom"
)

// Family "envelope" (C12).

func envFromCase(v interface{}) geom.Envelope {
	l, _ := v.([]interface{})
	if len(l) == 0 {
		return geom.Envelope{}
	}
	f := func(i int) float64 { return jnum(l[i]) }
	return geom.NewEnvelope(geom.XY{X: f(0), Y: f(1)}, geom.XY{X: f(2), Y: f(3)})
}

func envInts(e geom.Envelope) []int {
	mn, mx, ok := e.MinMaxXYs()
	if !ok {
		return []int{}
	}
	return []int{li(mn.X), li(mn.Y), li(mx.X), li(mx.Y)}
}

func geomDesc(g geom.Geometry) Event {
	return Event{"t": g.Type().String(), "pts": seqInts(g.DumpCoordinates())}
}

func envelopeGen(r *rand.Rand, n int, tier string, emit func(Case)) {
	for i := 0; i < n; i++ {
		if i%10 == 9 {
			// the XY vector helpers on integer vectors (every third one a multiple of a Pythagorean triple: integer length)
			u := []int{r.Intn(41) - 20, r.Intn(41) - 20}
			v := []int{r.Intn(41) - 20, r.Intn(41) - 20}
			if r.Intn(3) == 0 {
				t := [][]int{{3, 4}, {5, 12}, {8, 15}, {-4, 3}, {0, 1}, {-1, 0}, {0, 0}}[r.Intn(7)]
				k := 1 + r.Intn(4)
				u = []int{k * t[0], k * t[1]}
			}
			if r.Intn(5) == 0 {
				v = []int{u[0], v[1]} // equal X: the Y tie-break of Less
			}
			emit(Case{"kind": "xy", "u": u, "v": v, "k": r.Intn(21) - 10})
			continue
		}
		l := &lgen{r: r, N: 3 + r.Intn(8)}
		g := l.any(4)
		c := Case{"kind": "geom", "wa": g.AsText(), "wb": l.any(5).AsText()}
		switch r.Intn(6) {
		case 0:
			c["t"] = l.randSimil().toCase()
		case 1, 2:
			c["t"] = l.randDyadic(true).toCase()
		}
		emit(c)
	}
	for i := 0; i < bigExtra(n); i++ { // large sizes
		l := bigLattice(r)
		c := Case{"kind": "geom", "wa": l.bigAny().AsText(), "wb": l.bigAny().AsText()}
		switch r.Intn(6) {
		case 0:
			c["t"] = l.randSimil().toCase()
		case 1:
			c["t"] = l.randDyadic(true).toCase()
		}
		emit(c)
	}
}

func envelopeOnPanic(c Case) Event {
	gd := Event{"t": "", "pts": [][]int{}}
	return Event{"kind": c.str("kind"), "a": []int{}, "b": []int{}, "c": []int{}, "ra": []int{}, "rb": []int{}, "join": []int{}, "join3": []int{},
		"expandxy": []int{}, "txy": []int{}, "contains": false, "intersects": false, "intersectsrev": false, "covers": false, "coversrev": false,
		"distok": false, "dist2": 0, "kind2": "", "width": 0, "height": 0, "area": 0, "center2": []int{}, "centerempty": false,
		"minmax": []int{}, "boxok": false, "box": []int{}, "asgeom": gd, "diag": gd,
		"pts": [][]int{}, "env": []int{}, "isempty": false, "variants": [][]int{}, "members": [][]int{}, "unionok": false, "unionenv": []int{}, "otherenv": []int{}}
}

func caseInts(v interface{}) []int {
	l, _ := v.([]interface{})
	out := []int{}
	for _, x := range l {
		out = append(out, int(jnum(x)))
	}
	return out
}

func envelopeExec(c Case) Event {
	ev := envelopeOnPanic(c)
	if c.str("kind") == "xy" {
		ui, vi, k := caseInts(c["u"]), caseInts(c["v"]), c.num("k")
		u, v := geom.XY{X: float64(ui[0]), Y: float64(ui[1])}, geom.XY{X: float64(vi[0]), Y: float64(vi[1])}
		xi := func(p geom.XY) []int { return []int{li(p.X), li(p.Y)} }
		x := Event{"kind": "xy", "u": ui, "v": vi, "k": k, "panic": "",
			"sub": xi(u.Sub(v)), "add": xi(u.Add(v)), "scale": xi(u.Scale(float64(k))), "cross": li(u.Cross(v)), "dot": li(u.Dot(v)),
			"ival": func() []int {
				// Interval: NewInterval orders its bounds; the zero Interval is empty
				lo, hi, ok := geom.NewInterval(float64(ui[0]), float64(vi[0])).MinMax()
				_, _, zok := geom.Interval{}.MinMax()
				return []int{li(lo), li(hi), boolInt(ok), boolInt(zok)}
			}(),
			"mid2": xi(u.Midpoint(v).Scale(2)), "less": u.Less(v), "lessrev": v.Less(u), "len32": -1, "unit": []int{0, 0}, "unitfin": false}
		if ln := u.Length(); finite(ln) {
			x["len32"] = int(math.Floor(ln * 32))
			un := u.Unit()
			if finite(un.X) && finite(un.Y) {
				x["unitfin"] = true
				x["unit"] = []int{int(math.Round(un.X * ln * 1024)), int(math.Round(un.Y * ln * 1024))}
			}
		}
		return x
	}
	if c.str("kind") == "algebra" {
		// se: the envelopes are built at scale 2^se (exact), everything read back is divided by the scale again
		sc := 1.0
		if _, ok := c["se"]; ok {
			sc = math.Ldexp(1, c.num("se"))
		}
		scaleEnv := func(e geom.Envelope) geom.Envelope {
			mn, mx, ok := e.MinMaxXYs()
			if !ok || sc == 1 {
				return e
			}
			return geom.NewEnvelope(mn.Scale(sc), mx.Scale(sc))
		}
		li := func(v float64) int { return li(v / sc) }
		envInts := func(e geom.Envelope) []int {
			mn, mx, ok := e.MinMaxXYs()
			if !ok {
				return []int{}
			}
			return []int{li(mn.X), li(mn.Y), li(mx.X), li(mx.Y)}
		}
		geomDesc := func(g geom.Geometry) Event {
			return geomDesc(g.TransformXY(func(p geom.XY) geom.XY { return p.Scale(1 / sc) }))
		}
		a, b, cc := scaleEnv(envFromCase(c["a"])), scaleEnv(envFromCase(c["b"])), scaleEnv(envFromCase(c["c"]))
		ev["a"], ev["b"], ev["c"] = caseInts(c["a"]), caseInts(c["b"]), caseInts(c["c"])
		ev["ra"], ev["rb"] = envInts(a), envInts(b)
		ev["join"] = envInts(a.ExpandToIncludeEnvelope(b))
		ev["join3"] = envInts(a.ExpandToIncludeEnvelope(b).ExpandToIncludeEnvelope(cc))
		if bmn, bmx, ok := b.MinMaxXYs(); ok {
			p := geom.XY{X: bmn.X, Y: bmx.Y}
			ev["expandxy"] = envInts(a.ExpandToIncludeXY(p))
			// TransformXY with a quarter turn, a stretch and a shift (orientation of both axes changes)
			ev["txy"] = envInts(a.TransformXY(func(q geom.XY) geom.XY { return geom.XY{X: 7*sc - q.Y, Y: 2*q.X + sc} }))
			ev["contains"] = a.Contains(p)
		}
		ev["intersects"], ev["intersectsrev"] = a.Intersects(b), b.Intersects(a)
		ev["covers"], ev["coversrev"] = a.Covers(b), b.Covers(a)
		d, ok := a.Distance(b)
		ev["distok"] = ok
		if ok {
			ev["dist2"] = roundInt(d / sc * (d / sc))
		}
		switch {
		case a.IsEmpty():
			ev["kind2"] = "empty"
		case a.IsPoint():
			ev["kind2"] = "point"
		case a.IsLine():
			ev["kind2"] = "line"
		case a.IsRectangle():
			ev["kind2"] = "rectangle"
		default:
			ev["kind2"] = "none"
		}
		if (a.IsPoint() && a.IsLine()) || (a.IsLine() && a.IsRectangle()) || (a.IsPoint() && a.IsRectangle()) || (a.IsEmpty() && (a.IsPoint() || a.IsLine() || a.IsRectangle())) {
			ev["kind2"] = "ambiguous"
		}
		ev["width"], ev["height"], ev["area"] = li(a.Width()), li(a.Height()), li(a.Area()/sc)
		if xy, ok := a.Center().XY(); ok {
			ev["center2"] = []int{li(2 * xy.X), li(2 * xy.Y)}
		} else {
			ev["centerempty"] = true
		}
		mm := []int{}
		if mn, ok := a.Min().XY(); ok {
			if mx, ok2 := a.Max().XY(); ok2 {
				mm = []int{li(mn.X), li(mn.Y), li(mx.X), li(mx.Y)}
			}
		}
		ev["minmax"] = mm
		if bx, ok := a.AsBox(); ok {
			ev["boxok"] = true
			ev["box"] = []int{li(bx.MinX), li(bx.MinY), li(bx.MaxX), li(bx.MaxY)}
		}
		ev["asgeom"], ev["diag"] = geomDesc(a.AsGeometry()), geomDesc(a.BoundingDiagonal())
		ev["nt"] = !a.IsEmpty() && !b.IsEmpty()
		return ev
	}
	g, h := mustWKT(c.str("wa")), mustWKT(c.str("wb"))
	ev["pts"] = seqInts(g.DumpCoordinates())
	// an exact similarity image (integer or power-of-two scale, any of the eight axis symmetries): the envelope of the
	// image is the image of the envelope, so every envelope is brought back to the lattice frame before it is recorded
	if f, _ := mapOf(c); f != nil {
		g, h = imageOf(g, f), imageOf(h, f)
	}
	inv := invOf(c)
	envInts := func(e geom.Envelope) []int {
		mn, mx, ok := e.MinMaxXYs()
		if !ok {
			return []int{}
		}
		if inv != nil {
			a, b := inv(mn), inv(mx)
			mn = geom.XY{X: math.Min(a.X, b.X), Y: math.Min(a.Y, b.Y)}
			mx = geom.XY{X: math.Max(a.X, b.X), Y: math.Max(a.Y, b.Y)}
		}
		return []int{li(mn.X), li(mn.Y), li(mx.X), li(mx.Y)}
	}
	e := g.Envelope()
	ev["env"], ev["isempty"] = envInts(e), e.IsEmpty()
	vs := [][]int{}
	for _, v := range []geom.Geometry{g.Reverse(), g.Force2D(), g.ForceCW(), g.ForceCCW(), g.ForceCoordinatesType(geom.DimXYZM), g.ForceCoordinatesType(geom.DimXYM)} {
		vs = append(vs, envInts(v.Envelope()))
	}
	// member reordering
	if g.IsGeometryCollection() {
		gc := g.MustAsGeometryCollection()
		var ms []geom.Geometry
		members := [][]int{}
		for i := gc.NumGeometries() - 1; i >= 0; i-- {
			ms = append(ms, gc.GeometryN(i))
		}
		for i := 0; i < gc.NumGeometries(); i++ {
			members = append(members, envInts(gc.GeometryN(i).Envelope()))
		}
		vs = append(vs, envInts(geom.NewGeometryCollection(ms).Envelope()))
		ev["members"] = members
	}
	ev["variants"] = vs
	// (a tiny image at a large offset is below the overlay's documented snapping tolerance: no Union claim there)
	subTol := false
	if t := c.list("t"); t != nil && hexFloat(t[0]) < 1 && (hexFloat(t[1]) != 0 || hexFloat(t[2]) != 0) {
		subTol = true
	}
	if u, err := geom.Union(g, h); err == nil && !subTol {
		ue := u.Envelope()
		if mn, mx, ok := ue.MinMaxXYs(); !ok || func() bool {
			if inv != nil {
				mn, mx = inv(mn), inv(mx)
			}
			return mn.X == math.Trunc(mn.X) && mn.Y == math.Trunc(mn.Y) && mx.X == math.Trunc(mx.X) && mx.Y == math.Trunc(mx.Y)
		}() {
			ev["unionok"] = true
			ev["unionenv"] = envInts(ue)
			ev["otherenv"] = envInts(h.Envelope())
		}
	}
	ev["nt"] = !g.IsEmpty()
	return ev
}

func init() {
	register("envelope", &Family{Gen: envelopeGen, Exec: envelopeExec, OnPanic: envelopeOnPanic})
}
