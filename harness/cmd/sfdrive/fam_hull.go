package main

import (
	"math"
	"math/rand"
	"sort"

	"github.com/peterstace/simplefeatures/geom"
)

// Family "hull" (C13): ConvexHull and the rotated minimum bounding rectangles.

func hullDesc(h geom.Geometry) Event {
	switch {
	case h.IsEmpty():
		return Event{"kind": "empty", "pts": [][]int{}}
	case h.IsPoint():
		return Event{"kind": "point", "pts": seqInts(h.MustAsPoint().DumpCoordinates())}
	case h.IsLineString():
		return Event{"kind": "line", "pts": seqInts(h.MustAsLineString().Coordinates())}
	case h.IsPolygon():
		p := h.MustAsPolygon()
		if p.NumInteriorRings() != 0 {
			return Event{"kind": "poly-with-holes", "pts": [][]int{}}
		}
		return Event{"kind": "poly", "pts": seqInts(p.ExteriorRing().Coordinates())}
	}
	return Event{"kind": h.Type().String(), "pts": [][]int{}}
}

func rectDesc(rc geom.Geometry, s float64, inv func(geom.XY) geom.XY) Event {
	ev := Event{"kind": "other", "c": [][]int{}, "an": 0, "wn": 0}
	switch {
	case rc.IsEmpty():
		ev["kind"] = "empty"
	case rc.IsPoint():
		ev["kind"] = "point"
	case rc.IsLineString():
		ev["kind"] = "line"
	case rc.IsPolygon():
		ev["kind"] = "poly"
		seq := rc.MustAsPolygon().ExteriorRing().Coordinates()
		cs := [][]int{}
		var side []float64
		for i := 0; i < seq.Length(); i++ {
			xy := seq.GetXY(i)
			if inv != nil {
				xy = inv(xy)
			}
			cs = append(cs, []int{scaled(xy.X, 256), scaled(xy.Y, 256)})
			if i > 0 {
				p, q := seq.GetXY(i-1), seq.GetXY(i)
				side = append(side, math.Hypot(p.X-q.X, p.Y-q.Y)/s)
			}
		}
		ev["c"] = cs
		ev["an"] = int(math.Floor(rc.Area() / (s * s) * 1024))
		w := side[0]
		for _, x := range side {
			w = math.Min(w, x)
		}
		ev["wn"] = int(math.Floor(w * w * 1024))
	}
	return ev
}

func hullGen(r *rand.Rand, n int, tier string, emit func(Case)) {
	for i := 0; i < n+bigExtra(n); i++ {
		big := i >= n // large sizes come last
		l := &lgen{r: r, N: 3 + r.Intn(6)}
		if r.Intn(5) == 0 {
			l.N = 9 + r.Intn(8)
		}
		var g geom.Geometry
		sel := r.Intn(8)
		if big {
			l, sel = bigLattice(r), -1
		}
		switch sel {
		case -1:
			if r.Intn(2) == 0 {
				g = l.bigAny()
			} else {
				g = l.convexMany()
			}
		case 0: // point multisets with duplicates and collinear runs
			var pts []geom.Point
			m := 1 + r.Intn(12)
			if r.Intn(10) == 0 {
				m = 50 + r.Intn(150)
			}
			row := r.Intn(l.N + 1)
			for j := 0; j < m; j++ {
				p := l.pt()
				if r.Intn(3) == 0 {
					p.Y = float64(row)
				}
				pts = append(pts, p.AsPoint())
				if r.Intn(4) == 0 {
					pts = append(pts, p.AsPoint())
				}
			}
			g = geom.NewMultiPoint(pts).AsGeometry()
		case 1: // all collinear
			var pts []geom.Point
			dx, dy := r.Intn(3)-1, r.Intn(3)-1
			for j, m := 0, 1+r.Intn(6); j < m; j++ {
				k := r.Intn(l.N/2 + 1)
				pts = append(pts, geom.XY{X: float64(l.N/2 + k*dx), Y: float64(l.N/2 + k*dy)}.AsPoint())
			}
			g = geom.NewMultiPoint(pts).AsGeometry()
		case 2, 3: // collinear runs with unequal gaps along slanted directions, as hull edges and as whole inputs
			l.N = 64
			var pts []geom.Point
			for e, ne := 0, 1+r.Intn(3); e < ne; e++ {
				a, b := 1+r.Intn(7), 1+r.Intn(7)
				if r.Intn(2) == 0 {
					b = -b
				}
				x0, y0 := 20+r.Intn(10), 30+r.Intn(5)
				for _, k := range [][]int{{0, 1, 3}, {0, 1, 4}, {0, 2, 3}, {0, 1, 2, 4}, {0, 3, 4}, {0, 1, 6}}[r.Intn(6)] {
					x, y := x0+k*a, y0+k*b
					if x >= 0 && x <= 64 && y >= 0 && y <= 64 {
						pts = append(pts, geom.XY{X: float64(x), Y: float64(y)}.AsPoint())
					}
				}
			}
			if r.Intn(2) == 0 {
				pts = append(pts, l.pt().AsPoint())
			}
			r.Shuffle(len(pts), func(i, j int) { pts[i], pts[j] = pts[j], pts[i] })
			g = geom.NewMultiPoint(pts).AsGeometry()
			if r.Intn(3) == 0 && len(pts) >= 2 {
				var xs []geom.XY
				for _, p := range pts {
					xy, _ := p.XY()
					xs = append(xs, xy)
				}
				if ls := geom.NewLineString(seqOf(xs)); genValid(ls) {
					g = ls.AsGeometry()
				}
			}
		default:
			g = l.any(5)
		}
		mk := 0
		switch r.Intn(8) {
		case 0, 1:
			mk = 1
		case 2:
			// general position: only the covering claims are made there, and only for inputs whose control points are in
			// general position themselves (no three distinct ones collinear: nearly collinear float triples are the
			// sub-tolerance inputs the property excludes)
			if generalPosition(g) {
				mk = 2
			}
		case 3:
			mk = 3 + r.Intn(2)
		}
		c := pairCase(l, g, geom.Geometry{}, mk)
		delete(c, "wb")
		c["perm"] = r.Int63()
		emit(c)
	}
}

func generalPosition(g geom.Geometry) bool {
	seq := g.DumpCoordinates()
	seen := map[geom.XY]bool{}
	var pts []geom.XY
	for i := 0; i < seq.Length(); i++ {
		if p := seq.GetXY(i); !seen[p] {
			seen[p] = true
			pts = append(pts, p)
		}
	}
	if len(pts) > 30 {
		return false
	}
	for i := range pts {
		for j := i + 1; j < len(pts); j++ {
			for k := j + 1; k < len(pts); k++ {
				if (pts[j].X-pts[i].X)*(pts[k].Y-pts[i].Y) == (pts[j].Y-pts[i].Y)*(pts[k].X-pts[i].X) {
					return false
				}
			}
		}
	}
	return true
}

func hullOnPanic(c Case) Event {
	e := Event{"kind": "empty", "pts": [][]int{}}
	rc := Event{"kind": "empty", "c": [][]int{}, "an": 0, "wn": 0}
	return Event{"g": []*flat{}, "hull": e, "hull2": e, "hullp": e, "hvalid": false, "ra": rc, "rw": rc, "rects": false, "gp": false}
}

func hullExec(c Case) Event {
	ev := hullOnPanic(c)
	g0 := mustWKT(c.str("wa"))
	f, gp := mapOf(c)
	inv := invOf(c)
	if gp {
		inv = snapLattice(inv)
	}
	ev["gp"] = gp
	s := scaleOf(c)
	g := imageOf(g0, f)
	ev["g"] = parts(g0)
	back := func(h geom.Geometry) geom.Geometry {
		if inv == nil {
			return h
		}
		return h.TransformXY(inv)
	}
	h := g.ConvexHull()
	ev["hull"] = hullDesc(back(h))
	ev["hvalid"] = h.Validate() == nil
	ev["hull2"] = hullDesc(back(h.ConvexHull()))
	// the same control points as a shuffled MultiPoint with duplicates
	seq := g.DumpCoordinates()
	pr := rand.New(rand.NewSource(int64(c.num("perm"))))
	var pts []geom.Point
	for i := 0; i < seq.Length(); i++ {
		pts = append(pts, seq.GetXY(i).AsPoint())
		if pr.Intn(3) == 0 {
			pts = append(pts, seq.GetXY(i).AsPoint())
		}
	}
	pr.Shuffle(len(pts), func(i, j int) { pts[i], pts[j] = pts[j], pts[i] })
	ev["hullp"] = hullDesc(back(geom.NewMultiPoint(pts).AsGeometry().ConvexHull()))
	ev["ra"] = rectDesc(geom.RotatedMinimumAreaBoundingRectangle(g), s, inv)
	ev["rw"] = rectDesc(geom.RotatedMinimumWidthBoundingRectangle(g), s, inv)
	ev["rects"] = c.num("N") <= 100 // the specification's rectangle arithmetic stays within 32 bits up to there
	if t := c.list("t"); t != nil && (hexFloat(t[1]) != 0 || hexFloat(t[2]) != 0) && hexFloat(t[0]) < 1 {
		ev["rects"] = false // a tiny image at a large offset: the rectangle's own rounding exceeds the lattice unit
	}
	ev["nt"] = seq.Length() >= 3
	return ev
}

func init() {
	register("hull", &Family{Gen: hullGen, Exec: hullExec, OnPanic: hullOnPanic})
}

// convexMany: the vertices of a convex lattice polygon with many edges - primitive edge vectors in angular order,
// most of them within one quarter turn (a dense arc closed by a few long edges) or spread all round - as a polygon,
// a ring, or a shuffled point set with a few interior points. Sets l.N to the extent of the figure.
func (l *lgen) convexMany() geom.Geometry {
	r := l.r
	type dir struct{ dx, dy int }
	n := l.bigCount()
	var prim []dir
	for dx := 0; dx <= 6; dx++ { // 25 directions: the figure stays within 100 units, where the rectangle claims are checked
		for dy := 0; dy <= 6; dy++ {
			if dx+dy > 0 && gcdInt(dx, dy) == 1 {
				prim = append(prim, dir{dx, dy})
			}
		}
	}
	r.Shuffle(len(prim), func(i, j int) { prim[i], prim[j] = prim[j], prim[i] })
	if n > len(prim) {
		n = len(prim)
	}
	ds := append([]dir{}, prim[:n]...)
	spread := r.Intn(3) == 0
	if spread { // reflect some of them into the other quadrants
		for i := range ds {
			switch r.Intn(4) {
			case 1:
				ds[i] = dir{-ds[i].dy, ds[i].dx}
			case 2:
				ds[i] = dir{-ds[i].dx, -ds[i].dy}
			case 3:
				ds[i] = dir{ds[i].dy, -ds[i].dx}
			}
		}
	}
	// distinct directions only (rotating may have produced duplicates)
	seen := map[dir]bool{}
	var us []dir
	for _, d := range ds {
		if !seen[d] {
			seen[d] = true
			us = append(us, d)
		}
	}
	sx, sy := 0, 0
	for _, d := range us {
		sx, sy = sx+d.dx, sy+d.dy
	}
	// close the polygon: the missing sum as one or two axis-parallel edges (skipped if already a direction in use)
	for _, d := range []dir{{-sx, 0}, {0, -sy}} {
		if d.dx != 0 || d.dy != 0 {
			us = append(us, d)
		}
	}
	sort.Slice(us, func(i, j int) bool {
		hi, hj := halfOf(us[i].dx, us[i].dy), halfOf(us[j].dx, us[j].dy)
		if hi != hj {
			return hi < hj
		}
		return us[i].dx*us[j].dy-us[i].dy*us[j].dx > 0
	})
	x, y, minx, miny := 0, 0, 0, 0
	pts := []geom.XY{{}}
	for _, d := range us[:len(us)-1] {
		x, y = x+d.dx, y+d.dy
		pts = append(pts, geom.XY{X: float64(x), Y: float64(y)})
		if x < minx {
			minx = x
		}
		if y < miny {
			miny = y
		}
	}
	ext := 0
	for i := range pts {
		pts[i].X -= float64(minx)
		pts[i].Y -= float64(miny)
		if int(pts[i].X) > ext {
			ext = int(pts[i].X)
		}
		if int(pts[i].Y) > ext {
			ext = int(pts[i].Y)
		}
	}
	l.N = ext + 1
	switch r.Intn(3) {
	case 0:
		ring := append(append([]geom.XY{}, pts...), pts[0])
		if p := geom.NewPolygon([]geom.LineString{geom.NewLineString(seqOf(ring))}); genValid(p) {
			return p.AsGeometry()
		}
	case 1:
		ring := append(append([]geom.XY{}, pts...), pts[0])
		return geom.NewLineString(seqOf(ring)).AsGeometry()
	}
	// a few points between vertices (inside or on the hull: convex combinations rounded towards the first vertex)
	for k := 0; k < 5; k++ {
		a, b := pts[r.Intn(len(pts))], pts[r.Intn(len(pts))]
		pts = append(pts, geom.XY{X: math.Floor((a.X + b.X) / 2), Y: math.Floor((a.Y + b.Y) / 2)})
	}
	r.Shuffle(len(pts), func(i, j int) { pts[i], pts[j] = pts[j], pts[i] })
	var ps []geom.Point
	for _, p := range pts {
		ps = append(ps, p.AsPoint())
	}
	return geom.NewMultiPoint(ps).AsGeometry()
}
