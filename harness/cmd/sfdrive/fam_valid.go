package main

import (
	"bytes"
	"encoding/binary"
	"math"
	"math/rand"

	"github.com/peterstace/simplefeatures/geom"
)

// Family "valid" (C03).
//
//	kind "geom": geometry built without validation (lattice preimage + exact similarity):
//	             Validate() and the validating decoders (WKT, WKB, GeoJSON) must agree with SpecValid
//	kind "line": IsSimple / IsClosed / IsRing of (Multi)LineStrings
//	kind "nf":   one ordinate of a valid XYZM geometry replaced by NaN / +Inf / -Inf

func (l *lgen) rawLineString() geom.LineString {
	n := 1 + l.r.Intn(5)
	pts := make([]geom.XY, n)
	for i := range pts {
		pts[i] = l.pt()
	}
	switch l.r.Intn(6) {
	case 0:
		for i := range pts {
			pts[i] = pts[0]
		}
	case 1:
		pts = append(pts, pts[0])
	}
	return geom.NewLineString(seqOf(pts))
}

// perturb a ring: unclosed, spike, duplicated vertex, too short
func (l *lgen) brokenRing() geom.LineString {
	r := l.rawRing(0, 0, l.N)
	seq := r.Coordinates()
	var pts []geom.XY
	for i := 0; i < seq.Length(); i++ {
		pts = append(pts, seq.GetXY(i))
	}
	switch l.r.Intn(5) {
	case 0: // not closed
		pts = pts[:len(pts)-1]
	case 1: // spike: go out and come back
		k := l.r.Intn(len(pts) - 1)
		sp := l.pt()
		pts = append(pts[:k+1], append([]geom.XY{sp, pts[k]}, pts[k+1:]...)...)
	case 2: // too short
		pts = []geom.XY{pts[0], pts[1], pts[0]}
	case 3: // duplicate vertex
		k := l.r.Intn(len(pts))
		pts = append(pts[:k+1], pts[k:]...)
	case 4: // all the same point
		pts = []geom.XY{pts[0], pts[0], pts[0], pts[0]}
	}
	return geom.NewLineString(seqOf(pts))
}

func (l *lgen) rawPoly2() geom.Polygon {
	switch l.r.Intn(10) {
	case 0:
		return geom.NewPolygon([]geom.LineString{l.brokenRing()})
	case 1:
		p := l.polygon()
		rings := p.DumpRings()
		rings = append(rings, l.brokenRing())
		return geom.NewPolygon(rings)
	case 2, 3, 4:
		return l.polygon()
	}
	return l.rawPolygon()
}

func (l *lgen) rawGeom(depth int) geom.Geometry {
	switch l.r.Intn(9) {
	case 0:
		return l.pt().AsPoint().AsGeometry()
	case 1:
		return l.rawLineString().AsGeometry()
	case 2, 3:
		return l.rawPoly2().AsGeometry()
	case 4:
		return l.multiPoint().AsGeometry()
	case 5:
		var ls []geom.LineString
		for i, n := 0, 1+l.r.Intn(3); i < n; i++ {
			if l.r.Intn(3) == 0 {
				ls = append(ls, l.rawLineString())
			} else {
				ls = append(ls, l.lineString())
			}
		}
		return geom.NewMultiLineString(ls).AsGeometry()
	case 6, 7:
		var ps []geom.Polygon
		for i, n := 0, 1+l.r.Intn(3); i < n; i++ {
			if l.r.Intn(3) == 0 {
				ps = append(ps, l.rawPoly2())
			} else {
				ps = append(ps, l.polygon())
			}
		}
		return geom.NewMultiPolygon(ps).AsGeometry()
	}
	if depth >= 2 {
		return l.rawPoly2().AsGeometry()
	}
	var gs []geom.Geometry
	for i, n := 0, 1+l.r.Intn(3); i < n; i++ {
		gs = append(gs, l.rawGeom(depth+1))
	}
	return geom.NewGeometryCollection(gs).AsGeometry()
}

// ---- representation changes that must not change the verdict

func rotateRing(ls geom.LineString, k int) geom.LineString {
	seq := ls.Coordinates()
	n := seq.Length()
	if n < 2 || seq.GetXY(0) != seq.GetXY(n-1) {
		return ls
	}
	var pts []geom.XY
	for i := 0; i < n-1; i++ {
		pts = append(pts, seq.GetXY((i+k)%(n-1)))
	}
	pts = append(pts, pts[0])
	return geom.NewLineString(seqOf(pts))
}

func (l *lgen) variantPolygon(p geom.Polygon) geom.Polygon {
	rings := p.DumpRings()
	if len(rings) == 0 {
		return p
	}
	out := make([]geom.LineString, len(rings))
	for i, r := range rings {
		if n := r.Coordinates().Length(); n > 1 {
			r = rotateRing(r, l.r.Intn(n-1))
		}
		if l.r.Intn(2) == 0 {
			r = r.Reverse()
		}
		out[i] = r
	}
	holes := out[1:]
	l.r.Shuffle(len(holes), func(i, j int) { holes[i], holes[j] = holes[j], holes[i] })
	return geom.NewPolygon(out)
}

func (l *lgen) variant(g geom.Geometry) geom.Geometry {
	switch g.Type() {
	case geom.TypePolygon:
		return l.variantPolygon(g.MustAsPolygon()).AsGeometry()
	case geom.TypeMultiPolygon:
		mp := g.MustAsMultiPolygon()
		var ps []geom.Polygon
		for i := 0; i < mp.NumPolygons(); i++ {
			ps = append(ps, l.variantPolygon(mp.PolygonN(i)))
		}
		l.r.Shuffle(len(ps), func(i, j int) { ps[i], ps[j] = ps[j], ps[i] })
		return geom.NewMultiPolygon(ps).AsGeometry()
	case geom.TypeGeometryCollection:
		gc := g.MustAsGeometryCollection()
		var gs []geom.Geometry
		for i := 0; i < gc.NumGeometries(); i++ {
			gs = append(gs, l.variant(gc.GeometryN(i)))
		}
		l.r.Shuffle(len(gs), func(i, j int) { gs[i], gs[j] = gs[j], gs[i] })
		return geom.NewGeometryCollection(gs).AsGeometry()
	case geom.TypeLineString:
		if l.r.Intn(2) == 0 {
			return g.Reverse()
		}
	}
	return g
}

// gridRing: the outline of the box (x0,y0)-(x1,y1); with dense, every lattice point on it is a vertex.
func gridRing(x0, y0, x1, y1 int, dense bool) geom.LineString {
	cs := [][2]int{{x0, y0}, {x1, y0}, {x1, y1}, {x0, y1}, {x0, y0}}
	return stepRing(cs, dense)
}

// diamondRing: the square on its corner around (cx, cy), reaching rad along the axes.
func diamondRing(cx, cy, rad int, dense bool) geom.LineString {
	return stepRing([][2]int{{cx + rad, cy}, {cx, cy + rad}, {cx - rad, cy}, {cx, cy - rad}, {cx + rad, cy}}, dense)
}

func stepRing(cs [][2]int, dense bool) geom.LineString {
	var pts []geom.XY
	for i := 0; i+1 < len(cs); i++ {
		a, b := cs[i], cs[i+1]
		steps := 1
		if dense {
			steps = gcdInt(b[0]-a[0], b[1]-a[1])
		}
		for k := 0; k < steps; k++ {
			pts = append(pts, geom.XY{X: float64(a[0] + (b[0]-a[0])*k/steps), Y: float64(a[1] + (b[1]-a[1])*k/steps)})
		}
	}
	pts = append(pts, pts[0])
	return geom.NewLineString(seqOf(pts))
}

// bigRawAreal: not validated, with one large dimension - rings of many vertices (every lattice point along the outline),
// many holes, many member polygons - laid out on a grid of cells so that neighbours are apart, or touch in single
// points (which is allowed unless it closes a cycle around part of the interior), or share edges (which is not).
func (l *lgen) bigRawAreal() geom.Geometry {
	r := l.r
	c := 4 + 2*r.Intn(2)
	cells := (l.N - 2) / c
	m := 2 + r.Intn(5)
	if r.Intn(3) == 0 {
		m = l.bigCount()
	}
	if m > cells*cells {
		m = cells * cells
	}
	dense := r.Intn(3) != 0
	// neighbours first: consecutive cells of a random walk touch more often than cells picked anywhere
	var picked []int
	if r.Intn(2) == 0 {
		picked = r.Perm(cells * cells)[:m]
	} else {
		seen := map[int]bool{}
		cur := r.Intn(cells * cells)
		for tries := 0; len(picked) < m && tries < 20*m; tries++ {
			if !seen[cur] {
				seen[cur] = true
				picked = append(picked, cur)
			}
			x, y := cur%cells, cur/cells
			switch r.Intn(4) {
			case 0:
				x++
			case 1:
				x--
			case 2:
				y++
			default:
				y--
			}
			if x >= 0 && x < cells && y >= 0 && y < cells {
				cur = y*cells + x
			}
		}
	}
	mode := r.Intn(4) // the shape every cell gets, or mixed
	var rings []geom.LineString
	for _, k := range picked {
		x, y := 1+c*(k%cells), 1+c*(k/cells)
		sh := mode
		if mode == 3 {
			sh = r.Intn(5)
		}
		switch sh {
		case 0: // diamonds: touch their four neighbours in single points
			rings = append(rings, diamondRing(x+c/2, y+c/2, c/2, dense))
		case 1: // apart
			rings = append(rings, gridRing(x+1, y+1, x+c-1, y+c-1, dense))
		case 2: // the whole cell: shares an edge with each neighbour
			rings = append(rings, gridRing(x, y, x+c, y+c, dense))
		case 3: // touches left and right neighbours along part of an edge
			rings = append(rings, gridRing(x, y+1, x+c, y+c-1, dense))
		default: // corner to corner: touches diagonal neighbours in one point
			rings = append(rings, stepRing([][2]int{{x, y}, {x + c, y + c}, {x, y + c}, {x, y}}, dense))
		}
	}
	ext := 2 + c*cells
	if r.Intn(2) == 0 { // one polygon, the cells are its holes
		return geom.NewPolygon(append([]geom.LineString{gridRing(0, 0, ext, ext, dense && r.Intn(2) == 0)}, rings...)).AsGeometry()
	}
	var ps []geom.Polygon
	for _, rg := range rings {
		ps = append(ps, geom.NewPolygon([]geom.LineString{rg}))
	}
	return geom.NewMultiPolygon(ps).AsGeometry()
}

func validGen(r *rand.Rand, n int, tier string, emit func(Case)) {
	defer func() {
		for i := 0; i < bigExtra(n); i++ { // large sizes
			l := bigLatticeTo(r, 12, 16) // validity works with the sixth power of the side (DESIGN 4.4)
			var g geom.Geometry
			switch r.Intn(6) {
			case 0:
				g = l.bigAny()
			case 1:
				emit(Case{"kind": "line", "w": []geom.Geometry{l.bigLineString().AsGeometry(), l.bigMultiLineString().AsGeometry()}[r.Intn(2)].AsText()})
				continue
			default:
				g = l.bigRawAreal()
			}
			c := Case{"kind": "geom", "w": g.AsText()}
			if r.Intn(3) == 0 {
				c["hist"] = 1 + r.Intn(7)
			}
			if r.Intn(3) == 0 {
				c["t"] = l.randSimil().toCase()
			}
			emit(c)
		}
	}()
	for i := 0; i < n; i++ {
		l := &lgen{r: r, N: 3 + r.Intn(4)}
		if r.Intn(10) == 0 {
			l.N = 8 + r.Intn(9)
		}
		switch {
		case i%20 == 19:
			var g geom.Geometry
			if r.Intn(2) == 0 {
				g = l.lineString().AsGeometry()
			} else {
				g = l.multiLineString().AsGeometry()
			}
			emit(Case{"kind": "line", "w": g.AsText()})
		case i%20 == 18:
			g := l.leafOfType(r.Intn(6)).TransformXY(func(p geom.XY) geom.XY { return geom.XY{X: p.X + 1, Y: p.Y + 1} }).ForceCoordinatesType(geom.DimXYZM)
			np := g.DumpCoordinates().Length()
			if np == 0 {
				continue
			}
			cn := Case{"kind": "nf", "w": g.AsText(), "pos": r.Intn(np), "dim": r.Intn(4), "cls": r.Intn(3)}
			if r.Intn(2) == 0 { // two ordinates of the same point
				cn["dim2"], cn["cls2"] = (cn["dim"].(int)+1+r.Intn(3))%4, r.Intn(3)
				if r.Intn(2) == 0 {
					cn["dim"], cn["dim2"] = 0, 1 // X and Y
				}
			}
			emit(cn)
		default:
			g := l.rawGeom(0)
			c := Case{"kind": "geom", "w": g.AsText()}
			if r.Intn(3) == 0 {
				c["hist"] = 1 + r.Intn(7) // the value reaches Validate through another library operation first
			}
			if r.Intn(3) == 0 {
				c["t"] = l.randSimil().toCase()
			}
			emit(c)
			// the same geometry in another representation (ring starts, directions, hole and member order)
			if r.Intn(2) == 0 {
				c2 := Case{"kind": "geom", "w": l.variant(g).AsText()}
				if r.Intn(3) == 0 {
					c2["t"] = l.randSimil().toCase()
				}
				emit(c2)
			}
		}
	}
}

func validOnPanic(c Case) Event {
	return Event{"kind": c.str("kind"), "parts": []*flat{}, "valid": false, "dec": []bool{}, "lines": [][][]int{},
		"simple": false, "closed": false, "ring": false, "single": false, "xy": false, "base": false}
}

var nfBits = []uint64{0x7ff8000000000001, 0x7ff0000000000000, 0xfff0000000000000}

func validExec(c Case) Event {
	ev := validOnPanic(c)
	g0 := mustWKT(c.str("w"))
	switch c.str("kind") {
	case "geom":
		f, _ := mapOf(c)
		g := imageOf(g0, f)
		ev["parts"] = parts(g0)
		ev["valid"] = g.Validate() == nil
		_, e1 := geom.UnmarshalWKT(g.AsText())
		_, e2 := geom.UnmarshalWKB(g.AsBinary())
		js, err := g.MarshalJSON()
		if err != nil {
			panic(err)
		}
		_, e3 := geom.UnmarshalGeoJSON(js)
		// The decoders reject more than Validate for structural reasons of their formats only when a
		// polygon has an empty ring (not expressible); the generator never builds one.
		ev["dec"] = []bool{e1 == nil, e2 == nil, e3 == nil}
		ev["nt"] = len(ev["parts"].([]*flat)) > 0
	case "line":
		fl := leafFlat(g0)
		ev["lines"] = fl.Lines
		if g0.IsLineString() {
			ls := g0.MustAsLineString()
			ev["single"] = true
			ev["simple"], ev["closed"], ev["ring"] = ls.IsSimple(), ls.IsClosed(), ls.IsRing()
		} else {
			m := g0.MustAsMultiLineString()
			ev["simple"] = m.IsSimple()
		}
	case "nf":
		// give every ordinate a distinct value, then patch one of them in the WKB
		pos, dim, cls := c.num("pos"), c.num("dim"), c.num("cls")
		k := 0
		wkb := g0.AsBinary()
		seq := g0.DumpCoordinates()
		co := seq.Get(pos)
		var target float64
		switch dim {
		case 0:
			target = co.X
		case 1:
			target = co.Y
		case 2:
			target = co.Z
		case 3:
			target = co.M
		}
		_ = k
		// find the pos-th control point's ordinate: points are stored in order, 4 float64 each;
		// locate by scanning for the (x,y) pair of the point, occurrence-counted
		var pat [16]byte
		binary.LittleEndian.PutUint64(pat[0:], math.Float64bits(co.X))
		binary.LittleEndian.PutUint64(pat[8:], math.Float64bits(co.Y))
		occ := 0
		for i := 0; i < pos; i++ {
			if seq.GetXY(i) == co.XY {
				occ++
			}
		}
		idx, from := -1, 0
		for o := 0; o <= occ; o++ {
			j := bytes.Index(wkb[from:], pat[:])
			if j < 0 {
				panic("nf: control point not found in WKB")
			}
			idx = from + j
			from = idx + 32
		}
		_ = target
		binary.LittleEndian.PutUint64(wkb[idx+8*dim:], nfBits[cls])
		// optionally a second ordinate of the same control point (two non-finite values that cancel when combined:
		// +Inf and -Inf, NaN next to Inf)
		dim2, cls2 := -1, 0
		if _, ok := c["dim2"]; ok {
			dim2, cls2 = c.num("dim2"), c.num("cls2")
			binary.LittleEndian.PutUint64(wkb[idx+8*dim2:], nfBits[cls2])
		}
		var g geom.Geometry
		if g0.IsPoint() || g0.IsMultiPoint() {
			// the WKB reader treats NaN in a Point as (part of) the empty-point convention: use constructors
			patch := func(co geom.Coordinates) geom.Coordinates {
				set := func(dim int, v float64) {
					switch dim {
					case 0:
						co.X = v
					case 1:
						co.Y = v
					case 2:
						co.Z = v
					case 3:
						co.M = v
					}
				}
				set(dim, math.Float64frombits(nfBits[cls]))
				if dim2 >= 0 {
					set(dim2, math.Float64frombits(nfBits[cls2]))
				}
				return co
			}
			if g0.IsPoint() {
				g = geom.NewPoint(patch(co)).AsGeometry()
			} else {
				var pts []geom.Point
				for i := 0; i < seq.Length(); i++ {
					pc := seq.Get(i)
					if i == pos {
						pc = patch(pc)
					}
					pts = append(pts, geom.NewPoint(pc))
				}
				g = geom.NewMultiPoint(pts).AsGeometry()
			}
		} else {
			var err error
			g, err = geom.UnmarshalWKB(wkb, geom.NoValidate{})
			if err != nil {
				panic("nf: patched WKB does not parse: " + err.Error())
			}
		}
		ev["base"] = g0.Validate() == nil
		ev["valid"] = g.Validate() == nil
		ev["xy"] = dim < 2 || (dim2 >= 0 && dim2 < 2)
	}
	return ev
}

func init() {
	register("valid", &Family{Gen: validGen, Exec: validExec, OnPanic: validOnPanic})
}
