package main

import (
	"crypto/sha256"
	"encoding/hex"
	"fmt"
	"math/rand"
	"os"
	"strings"
	"sync"

	"github.com/peterstace/simplefeatures/geom"
	"github.com/peterstace/simplefeatures/rtree"
)

// Family "purity" (C10): goroutines over shared values under the race detector.
//
// case:  {seed, threads, calls, nvals}
// event: {threads, evs: [Begin{t,op,args,pre} | End{t,res,post} | RaceReport{}]}
//
// The recorder must not synchronise the goroutines it observes (that would hide races): every goroutine
// appends to its own buffer; the buffers are merged after wg.Wait().  Any merge that respects per-thread order
// is a valid input for Trace_Purity, whose conditions do not depend on cross-thread order.

func digest(b []byte) string {
	s := sha256.Sum256(b)
	return hex.EncodeToString(s[:6])
}

func geomDigest(g geom.Geometry) string {
	return digest(append(g.AsBinary(), []byte(g.AsText())...))
}

type sharedVal struct {
	list []geom.Geometry // a shared slice of geometries (argument of UnionMany / NewGeometryCollection)
	g    geom.Geometry
	tree *rtree.RTree
	seq  geom.Sequence
	env  geom.Envelope
}

func (v *sharedVal) digest() string {
	switch {
	case v.tree != nil:
		var sb strings.Builder
		for _, n := range v.tree.VerifDump() {
			fmt.Fprint(&sb, n.Leaf, n.Boxes, n.Children, n.Records, ";")
		}
		return digest([]byte(sb.String()))
	default:
		// the geometry, the sequence of all its coordinates and its envelope are three shared values of their own
		var sb strings.Builder
		sb.WriteString(geomDigest(v.g))
		for _, m := range v.list {
			sb.WriteString(geomDigest(m))
		}
		for i := 0; i < v.seq.Length(); i++ {
			c := v.seq.Get(i)
			fmt.Fprint(&sb, bitsHex(c.X), bitsHex(c.Y), bitsHex(c.Z), bitsHex(c.M))
		}
		sb.WriteString(v.seq.CoordinatesType().String())
		sb.WriteString(v.env.String())
		return digest([]byte(sb.String()))
	}
}

// withParts attaches the shared Sequence and Envelope values derived from g once, at creation.
func withParts(g geom.Geometry) *sharedVal {
	return &sharedVal{g: g, seq: g.DumpCoordinates(), env: g.Envelope()}
}

func seqStr(s geom.Sequence) string {
	var sb strings.Builder
	sb.WriteString(s.CoordinatesType().String())
	for i := 0; i < s.Length(); i++ {
		c := s.Get(i)
		fmt.Fprint(&sb, bitsHex(c.X), bitsHex(c.Y), bitsHex(c.Z), bitsHex(c.M), s.GetXY(i), ";")
	}
	return sb.String()
}

func resStr(g geom.Geometry, err error) string {
	if err != nil {
		return "error:" + err.Error()
	}
	return fmt.Sprintf("%x|%s", g.AsBinary(), g.AsText())
}

type pureOp struct {
	name string
	fn   func(a, b *sharedVal) string
}

func rtSearch(t *rtree.RTree, q rtree.Box) string {
	var sb strings.Builder
	t.RangeSearch(q, func(id int) error { fmt.Fprint(&sb, id, ","); return nil })
	sb.WriteString("|")
	n := 0
	t.PrioritySearch(q, func(id int) error {
		fmt.Fprint(&sb, id, ",")
		n++
		if n > 20 {
			return rtree.Stop
		}
		return nil
	})
	id, ok := t.Nearest(q)
	ext, ok2 := t.Extent()
	fmt.Fprint(&sb, "|", id, ok, ext, ok2, t.Count())
	return sb.String()
}

var pureOps = []pureOp{
	{"AsText", func(a, b *sharedVal) string { return a.g.AsText() }},
	{"AsBinary", func(a, b *sharedVal) string { return fmt.Sprintf("%x", a.g.AsBinary()) }},
	{"MarshalJSON", func(a, b *sharedVal) string { j, err := a.g.MarshalJSON(); return string(j) + errStr(err) }},
	{"MarshalTWKB", func(a, b *sharedVal) string {
		t, err := geom.MarshalTWKB(a.g, 1, geom.TWKBSizeHeader(), geom.TWKBBoundingBoxHeader())
		return fmt.Sprintf("%x%s", t, errStr(err))
	}},
	{"Validate", func(a, b *sharedVal) string { return errStr(a.g.Validate()) }},
	{"IsSimple", func(a, b *sharedVal) string { s, w := a.g.IsSimple(); return fmt.Sprint(s, w) }},
	{"Envelope", func(a, b *sharedVal) string { return a.g.Envelope().String() }},
	{"Centroid", func(a, b *sharedVal) string { return resStr(a.g.Centroid().AsGeometry(), nil) }},
	{"ConvexHull", func(a, b *sharedVal) string { return resStr(a.g.ConvexHull(), nil) }},
	{"Boundary", func(a, b *sharedVal) string { return resStr(a.g.Boundary(), nil) }},
	{"PointOnSurface", func(a, b *sharedVal) string { return resStr(a.g.PointOnSurface().AsGeometry(), nil) }},
	{"AreaLength", func(a, b *sharedVal) string { return bitsHex(a.g.Area()) + bitsHex(a.g.Length()) }},
	{"Reverse", func(a, b *sharedVal) string { return resStr(a.g.Reverse(), nil) }},
	{"ForceCW", func(a, b *sharedVal) string { return resStr(a.g.ForceCW(), nil) }},
	{"Force", func(a, b *sharedVal) string { return resStr(a.g.ForceCoordinatesType(geom.DimXYZM), nil) }},
	{"Simplify", func(a, b *sharedVal) string { r, err := a.g.Simplify(1); return resStr(r, err) }},
	{"Densify", func(a, b *sharedVal) string { return resStr(a.g.Densify(0.75), nil) }},
	{"SnapToGrid", func(a, b *sharedVal) string { return resStr(a.g.SnapToGrid(0), nil) }},
	{"TransformXY", func(a, b *sharedVal) string {
		return resStr(a.g.TransformXY(func(p geom.XY) geom.XY { return geom.XY{X: p.Y, Y: -p.X} }), nil)
	}},
	{"Dump", func(a, b *sharedVal) string {
		var sb strings.Builder
		for _, d := range a.g.Dump() {
			sb.WriteString(d.AsText())
		}
		return sb.String() + fmt.Sprint(seqToks(a.g.DumpCoordinates()))
	}},
	{"SequenceOps", func(a, b *sharedVal) string {
		s := a.seq
		out := seqStr(s.Reverse()) + seqStr(s.ForceCoordinatesType(geom.DimXYZM)) + seqStr(s.ForceCoordinatesType(geom.DimXYM)) + seqStr(s.Force2D()) + s.Envelope().String()
		if n := s.Length(); n >= 2 {
			out += seqStr(s.Slice(0, n/2)) + seqStr(s.Slice(n/2, n)) + seqStr(s.Slice(1, n).Reverse())
			out += geom.NewLineString(s.Slice(0, n/2+1)).Reverse().AsText() + geom.NewLineString(s).Densify(0.75).AsText()
		}
		return out
	}},
	{"EnvelopeOps", func(a, b *sharedVal) string {
		e, o := a.env, b.env
		d, ok := e.Distance(o)
		bx, bok := e.AsBox()
		return fmt.Sprint(e.ExpandToIncludeEnvelope(o), o.ExpandToIncludeEnvelope(e), e.ExpandToIncludeXY(geom.XY{X: 7, Y: -7}), e.Contains(geom.XY{X: 1, Y: 1}), e.Intersects(o),
			e.Covers(o), o.Covers(e), bitsHex(d), ok, e.Center().AsText(), e.Width(), e.Height(), e.Area(), e.AsGeometry().AsText(), e.BoundingDiagonal().AsText(),
			e.Min().AsText(), e.Max().AsText(), bx, bok, e.IsEmpty(), e.IsPoint(), e.IsLine(), e.IsRectangle(), e.Validate(),
			e.TransformXY(func(p geom.XY) geom.XY { return geom.XY{X: -p.Y, Y: p.X} }))
	}},
	{"DecodeAll", func(a, b *sharedVal) string {
		// every decoder on the encodings of the shared value: decoding is a read of its input and must be deterministic
		var sb strings.Builder
		if j, err := a.g.MarshalJSON(); err == nil {
			r, err := geom.UnmarshalGeoJSON(j, geom.NoValidate{})
			sb.WriteString(resStr(r, err))
		}
		r1, err := geom.UnmarshalWKB(a.g.AsBinary(), geom.NoValidate{})
		sb.WriteString(resStr(r1, err))
		r2, err := geom.UnmarshalWKT(a.g.AsText(), geom.NoValidate{})
		sb.WriteString(resStr(r2, err))
		if t, err := geom.MarshalTWKB(a.g, 1); err == nil {
			r3, err := geom.UnmarshalTWKB(t, geom.NoValidate{})
			sb.WriteString(resStr(r3, err))
		}
		return sb.String()
	}},
	{"Interpolate", func(a, b *sharedVal) string {
		var sb strings.Builder
		for _, d := range a.g.Dump() {
			if d.IsLineString() && !d.IsEmpty() {
				ls := d.MustAsLineString()
				sb.WriteString(ls.InterpolatePoint(0.3).AsText() + ls.InterpolateEvenlySpacedPoints(4).AsText())
			}
		}
		return sb.String()
	}},
	{"UnionMany", func(a, b *sharedVal) string {
		// a slice shared by the callers: the functions that take a slice must not reorder or overwrite it
		if a.list == nil {
			return "n/a"
		}
		r, err := geom.UnionMany(a.list)
		gc := geom.NewGeometryCollection(a.list)
		return resStr(r, err) + gc.AsText()
	}},
	{"Summary", func(a, b *sharedVal) string { return a.g.Summary() + a.g.String() }},
	{"DumpCoordinates", func(a, b *sharedVal) string { return fmt.Sprint(seqToks(a.g.DumpCoordinates())) }},
	{"RotatedMBR", func(a, b *sharedVal) string {
		return resStr(geom.RotatedMinimumAreaBoundingRectangle(a.g), nil) + resStr(geom.RotatedMinimumWidthBoundingRectangle(a.g), nil)
	}},
	{"UnaryUnion", func(a, b *sharedVal) string { r, err := geom.UnaryUnion(a.g); return resStr(r, err) }},
	{"Relate", func(a, b *sharedVal) string { m, err := geom.Relate(a.g, b.g); return m + errStr(err) }},
	{"Predicates", func(a, b *sharedVal) string {
		var sb strings.Builder
		for _, fn := range predFns {
			v, err := fn(a.g, b.g)
			fmt.Fprint(&sb, v, errStr(err), ",")
		}
		return sb.String()
	}},
	{"Distance", func(a, b *sharedVal) string { d, ok := geom.Distance(a.g, b.g); return fmt.Sprint(bitsHex(d), ok) }},
	{"Union", func(a, b *sharedVal) string { r, err := geom.Union(a.g, b.g); return resStr(r, err) }},
	{"Intersection", func(a, b *sharedVal) string { r, err := geom.Intersection(a.g, b.g); return resStr(r, err) }},
	{"Difference", func(a, b *sharedVal) string { r, err := geom.Difference(a.g, b.g); return resStr(r, err) }},
	{"SymmetricDifference", func(a, b *sharedVal) string { r, err := geom.SymmetricDifference(a.g, b.g); return resStr(r, err) }},
	{"ExactEquals", func(a, b *sharedVal) string {
		return fmt.Sprint(geom.ExactEquals(a.g, b.g), geom.ExactEquals(a.g, b.g, geom.IgnoreOrder))
	}},
	{"RTreeSearch", func(a, b *sharedVal) string {
		if b.tree == nil {
			return "n/a"
		}
		q := rtree.Box{MinX: 0, MinY: 0, MaxX: 3, MaxY: 3}
		if bx, ok := a.g.Envelope().AsBox(); ok {
			q = bx
		}
		return rtSearch(b.tree, q)
	}},
}

type pureEv struct {
	begin     bool
	op        string
	args      [2]int
	pre, post [2]string
	res       string
}

func purityOnPanic(c Case) Event { return Event{"threads": 0, "evs": []Event{}} }

var raceLogOffset int64

// newRaceReports counts race reports written by the race detector since the last call (GORACE=log_path=...).
func newRaceReports() int {
	path := ""
	for _, kv := range strings.Fields(os.Getenv("GORACE")) {
		if strings.HasPrefix(kv, "log_path=") {
			path = strings.TrimPrefix(kv, "log_path=")
		}
	}
	if path == "" {
		return 0
	}
	b, err := os.ReadFile(fmt.Sprintf("%s.%d", path, os.Getpid()))
	if err != nil {
		return 0
	}
	if int64(len(b)) <= raceLogOffset {
		return 0
	}
	n := strings.Count(string(b[raceLogOffset:]), "WARNING: DATA RACE")
	raceLogOffset = int64(len(b))
	return n
}

func purityExec(c Case) Event {
	r := rand.New(rand.NewSource(int64(c.num("seed"))))
	nvals, threads, calls := c.num("nvals"), c.num("threads"), c.num("calls")
	l := &lgen{r: r, N: 2 + r.Intn(3)} // small lattices: shared vertices, touching and overlapping members are the common case
	vals := make([]*sharedVal, 0, nvals+1)
	var items []rtree.BulkItem
	for i := 0; i < nvals; i++ {
		g := l.any(4)
		if i%2 == 0 {
			g = l.leafOfType(2 + 3*r.Intn(2)) // polygons and multipolygons: the overlay's map-ordered collections matter most
		}
		if i%5 == 4 {
			g = g.ForceCoordinatesType(geom.DimXYZM)
		}
		if i < 3 && c.boolean("big") {
			bl := bigLatticeTo(r, 12, 16)
			switch i {
			case 0: // a polygon with a ring of many vertices or with many holes
				g = bl.bigPolygon().AsGeometry()
			case 1:
				g = bl.bigAny()
			default:
				// the vertices of the first value as a MultiPoint: overlaid with it, every vertex is a node of the
				// arrangement, and the result's rings are assembled from as many pieces
				sq := vals[0].g.DumpCoordinates()
				var ps []geom.Point
				for k := 0; k < sq.Length(); k++ {
					ps = append(ps, sq.GetXY(k).AsPoint())
				}
				g = geom.NewMultiPoint(ps).AsGeometry()
			}
		}
		vals = append(vals, withParts(g))
		if bx, ok := g.Envelope().AsBox(); ok {
			items = append(items, rtree.BulkItem{Box: bx, RecordID: i + 1})
		}
	}
	// Values that alias one another's storage, the way values do in real programs: LineStrings that are windows
	// (Sequence.Slice) of one backing array with spare capacity behind each, wrapped into collections whose first member
	// is such a line; and the pieces of a set-operation result, which share one array. An operation that appends into
	// the spare capacity of its argument changes a sibling value, whose digest then no longer matches.
	{
		fs := make([]float64, 0, 64)
		for k := 0; k < 9; k++ {
			p := l.pt()
			fs = append(fs, p.X+float64(k)/16, p.Y)
		}
		all := geom.NewSequence(fs, geom.DimXY)
		w := []geom.LineString{geom.NewLineString(all.Slice(0, 3)), geom.NewLineString(all.Slice(3, 6)), geom.NewLineString(all.Slice(6, 9))}
		pt := l.pt().AsPoint().AsGeometry()
		vals = append(vals,
			withParts(geom.NewGeometryCollection([]geom.Geometry{w[0].AsGeometry(), pt, w[2].AsGeometry()}).AsGeometry()),
			withParts(w[1].AsGeometry()),
			withParts(geom.NewGeometryCollection([]geom.Geometry{w[1].AsGeometry(), w[0].AsGeometry()}).AsGeometry()),
			withParts(geom.NewMultiLineString(w).AsGeometry()))
		// 3D collections with an empty Point next to 3D positions (the GeoJSON reader decides the dimension from the set of
		// position lengths it has seen)
		vals = append(vals, withParts(mustWKT("GEOMETRYCOLLECTION Z(POINT Z(1 2 3),POINT Z EMPTY,LINESTRING Z(0 0 1,1 1 2))")),
			withParts(mustWKT("GEOMETRYCOLLECTION ZM(POINT ZM EMPTY,MULTIPOINT ZM((1 2 3 4),EMPTY))")))
		long := geom.NewLineString(seqOf([]geom.XY{{X: 0, Y: 0}, {X: 1, Y: 1}, {X: 2, Y: 0}, {X: 3, Y: 1}, {X: 4, Y: 0}})).AsGeometry()
		cut := mustWKT("MULTILINESTRING((0 0,1 1),(2 0,3 1),(3 1,4 0))")
		if res, err := geom.Intersection(long, cut); err == nil {
			vals = append(vals, withParts(res))
			for _, d := range res.Dump() {
				vals = append(vals, withParts(geom.NewGeometryCollection([]geom.Geometry{d, pt}).AsGeometry()))
			}
		}
		// shared slices with empty geometries before non-empty ones
		for k := 0; k < 2; k++ {
			v := withParts(geom.Geometry{})
			v.list = []geom.Geometry{vals[k].g, geom.Point{}.AsGeometry(), vals[k+1].g, geom.Polygon{}.AsGeometry(), pt}
			vals = append(vals, v)
		}
		nvals = len(vals)
	}
	for i := 0; i < 30; i++ {
		p := l.pt()
		items = append(items, rtree.BulkItem{Box: rtree.Box{MinX: p.X, MinY: p.Y, MaxX: p.X + 1, MaxY: p.Y + 1}, RecordID: 100 + i})
	}
	vals = append(vals, &sharedVal{g: geom.Geometry{}, tree: rtree.BulkLoad(items)})
	treeIdx := len(vals) - 1

	// a few "hot" calls that every goroutine repeats: the same operation on the same operands must give the same
	// result every time (map iteration order differs on every range and in every process)
	type hotCall struct{ op, a, b int }
	hot := make([]hotCall, 10)
	setOps := []int{}
	for i, op := range pureOps {
		switch op.name {
		case "Union", "Intersection", "Difference", "SymmetricDifference", "UnaryUnion", "Relate", "ConvexHull", "Boundary", "Simplify", "DecodeAll", "UnionMany":
			setOps = append(setOps, i)
		}
	}
	for i := range hot {
		hot[i] = hotCall{setOps[r.Intn(len(setOps))], r.Intn(nvals), r.Intn(nvals)}
	}
	bufs := make([][]pureEv, threads)
	seeds := make([]int64, threads)
	for t := range seeds {
		seeds[t] = r.Int63()
	}
	var wg sync.WaitGroup
	for t := 0; t < threads; t++ {
		wg.Add(1)
		go func(t int) {
			defer wg.Done()
			tr := rand.New(rand.NewSource(seeds[t]))
			buf := make([]pureEv, 0, 2*calls)
			for k := 0; k < calls; k++ {
				op := pureOps[tr.Intn(len(pureOps))]
				ai, bi := tr.Intn(nvals), tr.Intn(nvals)
				if tr.Intn(2) == 0 {
					h := hot[tr.Intn(len(hot))]
					op, ai, bi = pureOps[h.op], h.a, h.b
				}
				if op.name == "RTreeSearch" {
					bi = treeIdx
				}
				a, b := vals[ai], vals[bi]
				pre := [2]string{a.digest(), b.digest()}
				buf = append(buf, pureEv{begin: true, op: op.name, args: [2]int{ai, bi}, pre: pre})
				res := func() (s string) {
					defer func() {
						if rec := recover(); rec != nil {
							s = fmt.Sprint("panic:", rec)
						}
					}()
					return op.fn(a, b)
				}()
				buf = append(buf, pureEv{res: digest([]byte(res)), post: [2]string{a.digest(), b.digest()}})
			}
			bufs[t] = buf
		}(t)
	}
	wg.Wait()
	// merge round-robin (per-thread order preserved)
	evs := []Event{}
	idx := make([]int, threads)
	for done := false; !done; {
		done = true
		for t := 0; t < threads; t++ {
			if idx[t] < len(bufs[t]) {
				done = false
				e := bufs[t][idx[t]]
				idx[t]++
				if e.begin {
					evs = append(evs, Event{"e": "Begin", "t": t + 1, "op": e.op, "args": []string{fmt.Sprint("v", e.args[0]), fmt.Sprint("v", e.args[1])},
						"pre": []string{e.pre[0], e.pre[1]}})
				} else {
					evs = append(evs, Event{"e": "End", "t": t + 1, "res": e.res, "post": []string{e.post[0], e.post[1]}})
				}
			}
		}
	}
	for i, n := 0, newRaceReports(); i < n && i < 5; i++ {
		evs = append(evs, Event{"e": "RaceReport"})
	}
	return Event{"threads": threads, "evs": evs, "nevents": len(evs)}
}

func purityGen(r *rand.Rand, n int, tier string, emit func(Case)) {
	for i := 0; i < n; i++ {
		threads := []int{2, 3, 4, 8, 16}[i%5]
		emit(Case{"seed": r.Int63(), "threads": threads, "calls": 60, "nvals": 5 + r.Intn(4)})
	}
	for i := 0; i < 2+n/4; i++ { // large sizes: two of the shared values have many members or many vertices
		emit(Case{"seed": r.Int63(), "threads": []int{2, 4, 8}[i%3], "calls": 40, "nvals": 4 + r.Intn(3), "big": true})
	}
}

func init() {
	register("purity", &Family{Gen: purityGen, Exec: purityExec, OnPanic: purityOnPanic})
}
