package main

import (
	"bytes"
	"encoding/json"
	"math"
	"math/rand"

	"github.com/peterstace/simplefeatures/geom"
)

// Family "twkb" (C07).
//
//	kind "enc": {tree (raw integer ordinates k, value k/10^q), q, ct, p, pz, pm, size, bbox, closed, ids}
//	kind "dec": {bytes} written by the specification's writer
//	kind "bad": {what: "precxy"|"precz"|"precm"|"ids", ...}

// ---- abstract trees <-> geometries
//
// tree = {"t": 1..7, "c": ...} with c: Point [k..] (empty: []), LineString [[k..]..], Polygon [[[k..]..]..],
// MultiPoint [[k..]..] (empty member: []), MultiLineString, MultiPolygon, GeometryCollection [tree..]

type tnode struct {
	T int           `json:"t"`
	C []interface{} `json:"c"`
}

func ctOf(s string) geom.CoordinatesType {
	switch s {
	case "XYZ":
		return geom.DimXYZ
	case "XYM":
		return geom.DimXYM
	case "XYZM":
		return geom.DimXYZM
	}
	return geom.DimXY
}

func jnum(v interface{}) float64 {
	switch x := v.(type) {
	case json.Number:
		f, _ := x.Float64()
		return f
	case float64:
		return x
	case int:
		return float64(x)
	}
	panic("not a number")
}

func treeCoords(p []interface{}, ct geom.CoordinatesType, scale float64) geom.Coordinates {
	c := geom.Coordinates{Type: ct}
	c.XY = geom.XY{X: jnum(p[0]) / scale, Y: jnum(p[1]) / scale}
	i := 2
	if ct.Is3D() {
		c.Z = jnum(p[i]) / scale
		i++
	}
	if ct.IsMeasured() {
		c.M = jnum(p[i]) / scale
	}
	return c
}

func treeSeq(pts []interface{}, ct geom.CoordinatesType, scale float64) geom.Sequence {
	var fs []float64
	for _, p := range pts {
		for _, v := range p.([]interface{}) {
			fs = append(fs, jnum(v)/scale)
		}
	}
	return geom.NewSequence(fs, ct)
}

func treePoly(rings []interface{}, ct geom.CoordinatesType, scale float64) geom.Polygon {
	var rs []geom.LineString
	for _, r := range rings {
		rs = append(rs, geom.NewLineString(treeSeq(r.([]interface{}), ct, scale)))
	}
	if len(rs) == 0 {
		return geom.Polygon{}.ForceCoordinatesType(ct)
	}
	return geom.NewPolygon(rs)
}

func treeGeom(t map[string]interface{}, ct geom.CoordinatesType, scale float64) geom.Geometry {
	kind := int(jnum(t["t"]))
	c, _ := t["c"].([]interface{})
	switch kind {
	case 1:
		if len(c) == 0 {
			return geom.NewEmptyPoint(ct).AsGeometry()
		}
		return geom.NewPoint(treeCoords(c, ct, scale)).AsGeometry()
	case 2:
		return geom.NewLineString(treeSeq(c, ct, scale)).AsGeometry()
	case 3:
		return treePoly(c, ct, scale).AsGeometry()
	case 4:
		var pts []geom.Point
		for _, p := range c {
			if pp := p.([]interface{}); len(pp) == 0 {
				pts = append(pts, geom.NewEmptyPoint(ct))
			} else {
				pts = append(pts, geom.NewPoint(treeCoords(pp, ct, scale)))
			}
		}
		return geom.NewMultiPoint(pts).ForceCoordinatesType(ct).AsGeometry()
	case 5:
		var ls []geom.LineString
		for _, l := range c {
			ls = append(ls, geom.NewLineString(treeSeq(l.([]interface{}), ct, scale)))
		}
		return geom.NewMultiLineString(ls).ForceCoordinatesType(ct).AsGeometry()
	case 6:
		var ps []geom.Polygon
		for _, p := range c {
			ps = append(ps, treePoly(p.([]interface{}), ct, scale))
		}
		return geom.NewMultiPolygon(ps).ForceCoordinatesType(ct).AsGeometry()
	case 7:
		var gs []geom.Geometry
		for _, m := range c {
			gs = append(gs, treeGeom(m.(map[string]interface{}), ct, scale))
		}
		return geom.NewGeometryCollection(gs).ForceCoordinatesType(ct).AsGeometry()
	}
	panic("bad tree type")
}

// gridTree projects a decoded geometry onto the integer grid of the precisions: {t, e, c}.
func gridTree(g geom.Geometry, p, pz, pm int) Event {
	ct := g.CoordinatesType()
	sc := []float64{math.Pow10(p), math.Pow10(p)}
	if ct.Is3D() {
		sc = append(sc, math.Pow10(pz))
	}
	if ct.IsMeasured() {
		sc = append(sc, math.Pow10(pm))
	}
	grid := func(v float64, i int) int {
		x := v * sc[i]
		r := math.Round(x)
		if math.Abs(x-r) > 1e-6*math.Max(1, math.Abs(r)) {
			panic("decoded ordinate is not on the grid")
		}
		if math.Abs(r) >= 1<<31 {
			panic("ordinate out of TLC range")
		}
		return int(r)
	}
	seq := func(s geom.Sequence) [][]int {
		out := [][]int{}
		for i := 0; i < s.Length(); i++ {
			c := s.Get(i)
			pt := []int{grid(c.X, 0), grid(c.Y, 1)}
			k := 2
			if ct.Is3D() {
				pt = append(pt, grid(c.Z, k))
				k++
			}
			if ct.IsMeasured() {
				pt = append(pt, grid(c.M, k))
			}
			out = append(out, pt)
		}
		return out
	}
	poly := func(pg geom.Polygon) [][][]int {
		out := [][][]int{}
		for _, r := range pg.DumpRings() {
			out = append(out, seq(r.Coordinates()))
		}
		return out
	}
	ev := Event{"t": 0, "e": g.IsEmpty(), "c": []int{}}
	switch g.Type() {
	case geom.TypePoint:
		ev["t"] = 1
		if !g.IsEmpty() {
			ev["c"] = seq(g.MustAsPoint().DumpCoordinates())
		}
	case geom.TypeLineString:
		ev["t"] = 2
		if !g.IsEmpty() {
			ev["c"] = seq(g.MustAsLineString().Coordinates())
		}
	case geom.TypePolygon:
		ev["t"] = 3
		if !g.IsEmpty() {
			ev["c"] = poly(g.MustAsPolygon())
		}
	case geom.TypeMultiPoint:
		ev["t"] = 4
		if !g.IsEmpty() {
			mp := g.MustAsMultiPoint()
			pts := [][]int{}
			for i := 0; i < mp.NumPoints(); i++ {
				if pt := mp.PointN(i); pt.IsEmpty() {
					pts = append(pts, []int{})
				} else {
					pts = append(pts, seq(pt.DumpCoordinates())[0])
				}
			}
			ev["c"] = pts
		}
	case geom.TypeMultiLineString:
		ev["t"] = 5
		if !g.IsEmpty() {
			m := g.MustAsMultiLineString()
			ls := [][][]int{}
			for i := 0; i < m.NumLineStrings(); i++ {
				ls = append(ls, seq(m.LineStringN(i).Coordinates()))
			}
			ev["c"] = ls
		}
	case geom.TypeMultiPolygon:
		ev["t"] = 6
		if !g.IsEmpty() {
			m := g.MustAsMultiPolygon()
			ps := [][][][]int{}
			for i := 0; i < m.NumPolygons(); i++ {
				ps = append(ps, poly(m.PolygonN(i)))
			}
			ev["c"] = ps
		}
	case geom.TypeGeometryCollection:
		ev["t"] = 7
		if !g.IsEmpty() {
			gc := g.MustAsGeometryCollection()
			ms := []Event{}
			for i := 0; i < gc.NumGeometries(); i++ {
				ms = append(ms, gridTree(gc.GeometryN(i), p, pz, pm))
			}
			ev["c"] = ms
		}
	}
	return ev
}

// ---- generation of raw trees

type twGen struct {
	r       *rand.Rand
	d       int
	max     int
	big     bool // counts of vertices and members are sometimes just above 8, 16, 32 or 64
	bigUsed int
}

func (t *twGen) cnt(lo, hi int) int {
	if t.big && t.bigUsed < 2 && t.r.Intn(3) == 0 {
		t.bigUsed++
		return []int{9, 9, 17, 17, 17, 33, 33, 65}[t.r.Intn(8)] + t.r.Intn(4)
	}
	return lo + t.r.Intn(hi-lo+1)
}

func (t *twGen) pt() []interface{} {
	p := make([]interface{}, t.d)
	for i := range p {
		p[i] = t.r.Intn(2*t.max+1) - t.max
	}
	return p
}

func (t *twGen) line() []interface{} {
	var out []interface{}
	for i, n := 0, t.cnt(2, 4); i < n; i++ {
		out = append(out, t.pt())
	}
	return out
}

// ring: a small axis-aligned triangle far from degenerate so that rounding keeps it valid
func (t *twGen) ring(ox, oy, s int) []interface{} {
	mk := func(x, y int) []interface{} {
		p := t.pt()
		p[0], p[1] = x, y
		return p
	}
	a := mk(ox, oy)
	return []interface{}{a, mk(ox+s, oy), mk(ox, oy+s), a}
}

func (t *twGen) poly() []interface{} {
	s := t.max / 2
	if s < 4 {
		s = 4
	}
	rings := []interface{}{t.ring(-s, -s, 2*s)}
	if t.r.Intn(3) == 0 {
		rings = append(rings, t.ring(-s/2, -s/2, s/4+1))
	}
	return rings
}

func (t *twGen) tree(depth int, kind int) map[string]interface{} {
	if kind == 0 {
		kind = 1 + t.r.Intn(7)
	}
	empty := t.r.Intn(8) == 0
	n := map[string]interface{}{"t": kind, "c": []interface{}{}}
	if empty {
		return n
	}
	switch kind {
	case 1:
		n["c"] = t.pt()
	case 2:
		n["c"] = t.line()
	case 3:
		n["c"] = t.poly()
	case 4:
		var c []interface{}
		for i, m := 0, t.cnt(1, 3); i < m; i++ {
			if t.r.Intn(6) == 0 {
				c = append(c, []interface{}{})
			} else {
				c = append(c, t.pt())
			}
		}
		n["c"] = c
	case 5:
		var c []interface{}
		for i, m := 0, t.cnt(1, 3); i < m; i++ {
			if t.r.Intn(6) == 0 {
				c = append(c, []interface{}{})
			} else {
				c = append(c, t.line())
			}
		}
		n["c"] = c
	case 6:
		var c []interface{}
		for i, m := 0, 1+t.r.Intn(2); i < m; i++ {
			if t.r.Intn(6) == 0 {
				c = append(c, []interface{}{})
			} else {
				// disjoint polygons: shift each member
				p := t.poly()
				for _, rg := range p {
					for _, pt := range rg.([]interface{}) {
						q := pt.([]interface{})
						if t.max < 1<<24 {
							q[0] = q[0].(int) + i*4*t.max
						} else {
							q[0] = q[0].(int) + i*(t.max+t.max/2) // large values: stay below 2^30
						}
					}
				}
				c = append(c, p)
			}
		}
		n["c"] = c
	case 7:
		var c []interface{}
		for i, m := 0, t.cnt(1, 3); i < m; i++ {
			k := 1 + t.r.Intn(6)
			if depth < 2 && t.r.Intn(5) == 0 {
				k = 7
			}
			c = append(c, t.tree(depth+1, k))
		}
		n["c"] = c
	}
	return n
}

// touchHolePolygon: a square with a hole of five or six edges, one vertex of which lies in the interior of an edge of the
// square (a valid touch in a single point, and an incidence that survives the division by 10^q because the edge is
// axis-parallel). Which edge, where along it, which way round and from which vertex the rings start is varied.
func (l *lgen) touchHolePolygon() geom.Polygon {
	r := l.r
	if l.N < 5 {
		l.N = 5
	}
	n := l.N // the square is (1,1)-(n,n): no ordinate is zero (products with zero are exact and hide rounding)
	tx := 3 + r.Intn(n-4)
	cand := []geom.XY{{X: float64(tx + 1), Y: 3}, {X: float64(tx + 1), Y: 4}, {X: float64(tx), Y: 4}, {X: float64(tx - 1), Y: 4}, {X: float64(tx - 1), Y: 3}}
	drop := r.Intn(len(cand) + 1) // keep at least four of the five (five or six edges)
	hole := []geom.XY{{X: float64(tx), Y: 1}}
	for i, p := range cand {
		if i != drop {
			hole = append(hole, p)
		}
	}
	shell := []geom.XY{{X: 1, Y: 1}, {X: float64(n), Y: 1}, {X: float64(n), Y: float64(n)}, {X: 1, Y: float64(n)}}
	sym := r.Intn(8)
	ring := func(pts []geom.XY) geom.LineString {
		out := make([]geom.XY, len(pts))
		for i, p := range pts {
			x, y := p.X, p.Y
			if sym&1 != 0 {
				x, y = y, x
			}
			if sym&2 != 0 {
				x = float64(n+1) - x
			}
			if sym&4 != 0 {
				y = float64(n+1) - y
			}
			out[i] = geom.XY{X: x, Y: y}
		}
		k := r.Intn(len(out))
		out = append(out[k:], out[:k]...)
		if r.Intn(2) == 0 {
			for i, j := 0, len(out)-1; i < j; i, j = i+1, j-1 {
				out[i], out[j] = out[j], out[i]
			}
		}
		return geom.NewLineString(seqOf(append(out, out[0])))
	}
	return geom.NewPolygon([]geom.LineString{ring(shell), ring(hole)})
}

var ctNames = []string{"XY", "XYZ", "XYM", "XYZM"}

func twkbGen(r *rand.Rand, n int, tier string, emit func(Case)) {
	for i := 0; i < n+bigExtra(n); i++ { // large sizes come last
		if i%40 == 39 {
			what := []string{"precxy", "precz", "precm", "ids"}[r.Intn(4)]
			c := Case{"kind": "bad", "what": what, "v": []int{-9, 8, -20, 100}[r.Intn(4)]}
			if what == "precz" || what == "precm" {
				c["v"] = []int{-1, 8, 9, -3}[r.Intn(4)]
			}
			emit(c)
			continue
		}
		if i%50 == 7 {
			emit(Case{"kind": "zero", "which": r.Intn(4), "p": r.Intn(16) - 8, "size": r.Intn(2) == 0, "bbox": r.Intn(2) == 0})
			continue
		}
		if i%8 == 3 {
			// lattice geometries (touching rings, T-junctions, shared vertices are common) scaled to decimal fractions
			l := &lgen{r: r, N: 3 + r.Intn(6)}
			g := l.any(4)
			if r.Intn(2) == 0 {
				g = l.leafOfType(2 + 3*r.Intn(2)) // Polygon / MultiPolygon
			}
			if r.Intn(4) == 0 {
				g = l.touchHolePolygon().AsGeometry()
			}
			emit(Case{"kind": "grid", "w": g.AsText(), "q": 1 + r.Intn(3), "N": l.N})
			continue
		}
		cti := r.Intn(4)
		d := 2
		if cti == 1 || cti == 2 {
			d = 3
		} else if cti == 3 {
			d = 4
		}
		q := r.Intn(4)
		p := r.Intn(16) - 8
		pz, pm := r.Intn(8), r.Intn(8)
		// keep |k * 10^(p-q)| below 2^27 in every dimension
		hi := p
		if d > 2 {
			if pz > hi && (cti == 1 || cti == 3) {
				hi = pz
			}
			if pm > hi && (cti == 2 || cti == 3) {
				hi = pm
			}
		}
		max := 20000
		if e := hi - q; e > 0 {
			lim := int(float64(1<<24) / math.Pow10(e))
			if lim < max {
				max = lim
			}
		}
		if i%6 == 5 {
			// large integers at precision 0: deltas up to 2^29 in magnitude, i.e. five-byte varints (the specification's
			// integers end at 2^31, so the range 2^31 .. 2^40 of the property stays outside what TLC can judge)
			q, p, pz, pm, max = 0, 0, 0, 0, 1<<28
		}
		if max < 3 {
			continue
		}
		tg := &twGen{r: r, d: d, max: max, big: i >= n}
		kind := 0
		if i < 70 {
			kind = 1 + i%7
		}
		tree := tg.tree(0, kind)
		c := Case{"kind": "enc", "tree": tree, "q": q, "ct": ctNames[cti], "p": p, "pz": pz, "pm": pm,
			"size": r.Intn(2) == 0, "bbox": r.Intn(2) == 0, "closed": r.Intn(2) == 0, "ids": []int{}}
		if k := int(jnumAny(tree["t"])); k >= 4 && r.Intn(3) == 0 {
			m := len(tree["c"].([]interface{}))
			ids := make([]int, m)
			for j := range ids {
				ids[j] = r.Intn(2001) - 1000
			}
			c["ids"] = ids
		}
		emit(c)
	}
}

func jnumAny(v interface{}) float64 {
	if i, ok := v.(int); ok {
		return float64(i)
	}
	return jnum(v)
}

func twkbOnPanic(c Case) Event {
	return Event{"kind": c.str("kind"), "what": c.str("what"), "g": Event{"t": 1, "c": []int{}}, "q": 0, "ct": "XY", "p": 0, "pz": 0, "pm": 0,
		"size": false, "bbox": false, "ids": []int{}, "bytes": []int{}, "err": "", "emptyPointInMulti": false, "again": true, "stable": true,
		"dec": Event{"t": 0, "e": true, "c": []int{}}, "decct": "XY", "decerr": "", "hsize": -1, "hbbox": []int{}, "hids": []int{}}
}

func bytesInts(b []byte) []int {
	out := make([]int, len(b))
	for i, x := range b {
		out[i] = int(x)
	}
	return out
}

func hasEmptyPointInNonEmptyMulti(t map[string]interface{}) bool {
	kind := int(jnum(t["t"]))
	c, _ := t["c"].([]interface{})
	switch kind {
	case 4:
		ne, e := false, false
		for _, p := range c {
			if len(p.([]interface{})) == 0 {
				e = true
			} else {
				ne = true
			}
		}
		return ne && e
	case 7:
		for _, m := range c {
			if hasEmptyPointInNonEmptyMulti(m.(map[string]interface{})) {
				return true
			}
		}
	}
	return false
}

func twkbExec(c Case) Event {
	ev := twkbOnPanic(c)
	if c.str("kind") == "zero" {
		// the empty collection in the representations only library results have (nil-pointer Geometry): the zero value, an
		// empty envelope as a geometry, set operations on empty operands
		var g geom.Geometry
		switch c.num("which") {
		case 1:
			g = geom.Envelope{}.AsGeometry()
		case 2:
			g, _ = geom.Intersection(geom.Point{}.AsGeometry(), geom.Point{}.AsGeometry())
		case 3:
			g, _ = geom.Difference(geom.Polygon{}.AsGeometry(), geom.LineString{}.AsGeometry())
		}
		var opts []geom.TWKBWriterOption
		if c.boolean("size") {
			opts = append(opts, geom.TWKBSizeHeader())
		}
		if c.boolean("bbox") {
			opts = append(opts, geom.TWKBBoundingBoxHeader())
		}
		x := Event{"kind": "grid", "parts": []*flat{}, "q": 0, "err": "", "decerr": "", "same": false, "panic": ""}
		bs, err := geom.MarshalTWKB(g, c.num("p"), opts...)
		if err != nil {
			x["err"] = errStr(err)
			return x
		}
		dg, err := geom.UnmarshalTWKB(bs)
		if err != nil {
			x["decerr"] = errStr(err)
			return x
		}
		x["same"] = dg.IsEmpty() && dg.Type() == g.Type() && dg.IsGeometryCollection() == g.IsGeometryCollection()
		return x
	}
	if c.str("kind") == "grid" {
		g0 := mustWKT(c.str("w"))
		q := c.num("q")
		sc := math.Pow10(q)
		g := g0.TransformXY(func(p geom.XY) geom.XY { return geom.XY{X: p.X / sc, Y: p.Y / sc} })
		x := Event{"kind": "grid", "parts": parts(g0), "q": q, "err": "", "decerr": "", "same": false, "panic": ""}
		bs, err := geom.MarshalTWKB(g, q)
		if err != nil {
			x["err"] = errStr(err)
			return x
		}
		dg, err := geom.UnmarshalTWKB(bs) // validating
		if err != nil {
			x["decerr"] = errStr(err)
			return x
		}
		// TWKB drops empty Points of MultiPoints and writes rings without their closing point: compare as the library's
		// own exact, order-sensitive equality after the same normalisation of the expectation (a NoValidate decode)
		ng, err2 := geom.UnmarshalTWKB(bs, geom.NoValidate{})
		x["same"] = err2 == nil && geom.ExactEquals(dg, ng) && sameXYs(dg, g)
		return x
	}
	switch c.str("kind") {
	case "bad":
		g := geom.NewPoint(geom.Coordinates{XY: geom.XY{X: 1, Y: 2}, Z: 3, M: 4, Type: geom.DimXYZM}).AsGeometry()
		var err error
		switch c.str("what") {
		case "precxy":
			_, err = geom.MarshalTWKB(g, c.num("v"))
		case "precz":
			_, err = geom.MarshalTWKB(g, 0, geom.TWKBPrecisionZ(c.num("v")))
		case "precm":
			_, err = geom.MarshalTWKB(g, 0, geom.TWKBPrecisionM(c.num("v")))
		case "ids":
			mp := geom.NewMultiPoint([]geom.Point{geom.XY{X: 1, Y: 1}.AsPoint(), geom.XY{X: 2, Y: 2}.AsPoint()}).AsGeometry()
			_, err = geom.MarshalTWKB(mp, 0, geom.TWKBIDList([]int64{1, 2, 3}))
		}
		ev["err"] = errStr(err)
		return ev
	case "dec":
		var bs []byte
		for _, b := range c.ints("bytes") {
			bs = append(bs, byte(b))
		}
		ev["bytes"] = bytesInts(bs)
		g, err := geom.UnmarshalTWKB(bs, geom.NoValidate{})
		if err != nil {
			ev["decerr"] = errStr(err)
			return ev
		}
		// precisions are in the first bytes: re-read them as the spec does
		p := int(int8(bs[0]>>4>>1) ^ -int8(bs[0]>>4&1))
		pz, pm := 0, 0
		if len(bs) > 2 && bs[1]&8 != 0 {
			pz, pm = int(bs[2]>>2&7), int(bs[2]>>5&7)
		}
		ev["dec"] = gridTree(g, p, pz, pm)
		ev["decct"] = g.CoordinatesType().String()
		return ev
	}
	tree := c["tree"].(map[string]interface{})
	ct := ctOf(c.str("ct"))
	q, p, pz, pm := c.num("q"), c.num("p"), c.num("pz"), c.num("pm")
	if !ct.Is3D() {
		pz = 0
	}
	if !ct.IsMeasured() {
		pm = 0
	}
	g := treeGeom(tree, ct, math.Pow10(q))
	ev["g"], ev["q"], ev["ct"], ev["p"], ev["pz"], ev["pm"] = tree, q, c.str("ct"), p, pz, pm
	ev["size"], ev["bbox"] = c.boolean("size"), c.boolean("bbox")
	ev["emptyPointInMulti"] = hasEmptyPointInNonEmptyMulti(tree)
	opts := []geom.TWKBWriterOption{geom.TWKBPrecisionZ(pz), geom.TWKBPrecisionM(pm)}
	if c.boolean("size") {
		opts = append(opts, geom.TWKBSizeHeader())
	}
	if c.boolean("bbox") {
		opts = append(opts, geom.TWKBBoundingBoxHeader())
	}
	if c.boolean("closed") {
		opts = append(opts, geom.TWKBCloseRings())
	}
	ids := c.ints("ids")
	if len(ids) > 0 {
		ids64 := make([]int64, len(ids))
		for i, v := range ids {
			ids64[i] = int64(v)
		}
		opts = append(opts, geom.TWKBIDList(ids64))
		ev["ids"] = ids
	}
	bs, err := geom.MarshalTWKB(g, p, opts...)
	if err != nil {
		ev["err"] = errStr(err)
		return ev
	}
	ev["bytes"] = bytesInts(bs)
	// the same call again, with the very same option values (the writer must not have used up or rewritten what the
	// caller passed - the id list is the caller's slice), and the first result must not be touched by later calls
	keep := append([]byte(nil), bs...)
	bs2, err2 := geom.MarshalTWKB(g, p, opts...)
	ev["again"] = err2 == nil && bytes.Equal(bs2, keep)
	_, _ = geom.MarshalTWKB(geom.XY{X: 1, Y: 2}.AsPoint().AsGeometry(), 0)
	ev["stable"] = bytes.Equal(bs, keep)
	dg, err := geom.UnmarshalTWKB(bs, geom.NoValidate{})
	if err != nil {
		ev["decerr"] = errStr(err)
	} else {
		ev["dec"] = gridTree(dg, p, pz, pm)
		ev["decct"] = dg.CoordinatesType().String()
	}
	// header-only readers
	if sz, ok, err := geom.UnmarshalTWKBSize(bs); err == nil && ok {
		ev["hsize"] = sz
	} else if err != nil {
		ev["hsize"] = -2
	}
	if env, ok, err := geom.UnmarshalTWKBEnvelope(bs); err == nil && ok {
		hb := []int{}
		add := func(lo, hi float64, pr int) {
			s := math.Pow10(pr)
			a, b := math.Round(lo*s), math.Round(hi*s)
			// the generator keeps every scaled value below 2^24; anything a reader reports beyond 2^30
			// is clamped so that it still crosses the TLC boundary (and is judged a mismatch there)
			cl := func(v float64) int {
				if !(v < 1<<30) {
					return 1 << 30
				}
				if !(v > -(1 << 30)) {
					return -(1 << 30)
				}
				return int(v)
			}
			hb = append(hb, cl(a), cl(b-a))
		}
		if mn, mx, ok := env.XYEnvelope.MinMaxXYs(); ok {
			add(mn.X, mx.X, p)
			add(mn.Y, mx.Y, p)
			if ct.Is3D() {
				lo, hi, _ := env.ZRange.MinMax()
				add(lo, hi, pz)
			}
			if ct.IsMeasured() {
				lo, hi, _ := env.MRange.MinMax()
				add(lo, hi, pm)
			}
		}
		ev["hbbox"] = hb
	}
	if hids, ok, err := geom.UnmarshalTWKBIDList(bs); err == nil && ok {
		out := []int{}
		for _, v := range hids {
			out = append(out, int(v))
		}
		ev["hids"] = out
	}
	ev["nt"] = !g.IsEmpty()
	return ev
}

func init() {
	register("twkb", &Family{Gen: twkbGen, Exec: twkbExec, OnPanic: twkbOnPanic})
}

// sameXYs: the control points of a and b are the same numbers in the same order, up to consecutive repetitions of a
// vertex (TWKB writes rings without their closing point and closes them again on reading, so a ring whose closing
// vertex was written twice comes back with it once: a loss the format forces, like the ones the property lists).
func sameXYs(a, b geom.Geometry) bool {
	dedup := func(s geom.Sequence) []geom.XY {
		var out []geom.XY
		for i := 0; i < s.Length(); i++ {
			p := s.GetXY(i)
			if len(out) == 0 || out[len(out)-1] != p {
				out = append(out, p)
			}
		}
		return out
	}
	pa, pb := dedup(a.DumpCoordinates()), dedup(b.DumpCoordinates())
	if len(pa) != len(pb) {
		return false
	}
	for i := range pa {
		if pa[i] != pb[i] { // == on float64: -0 and +0 are the same ordinate
			return false
		}
	}
	return true
}
