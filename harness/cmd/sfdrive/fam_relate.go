package main

import (
	"math"
	"math/rand"

	"github.com/peterstace/simplefeatures/geom"
)

// Family "relate" (C02): Relate(a,b), Relate(b,a) and the ten named predicates.
//
// case: {wa, wb: WKT of the lattice preimages, N, t: similarity | rot: general-position map}
// event: a, b (leaf flats of the preimages), ab, ba (matrices), preds (10 booleans), err, gp

func mustWKT(s string) geom.Geometry {
	g, err := geom.UnmarshalWKT(s, geom.NoValidate{})
	if err != nil {
		panic("bad WKT in case: " + err.Error())
	}
	return g
}

// pairCase builds a two-operand lattice case with an optional exact similarity or general-position map.
func pairCase(l *lgen, a, b geom.Geometry, mapKind int) Case {
	c := Case{"wa": a.AsText(), "wb": b.AsText(), "N": l.N}
	if l.r.Intn(3) == 0 {
		c["hist"] = 1 + l.r.Intn(9) // the operands reach the operation through another library operation first
	}
	switch mapKind {
	case 1:
		c["t"] = l.randSimil().toCase()
	case 3:
		c["t"] = l.randDyadic(false).toCase()
	case 4:
		c["t"] = l.randDyadic(true).toCase()
	case 2:
		// general-position float image: rotation by an arbitrary angle, non-dyadic scale and offset
		c["rot"] = []interface{}{bitsHex(l.r.Float64() * 2 * math.Pi), bitsHex(0.1 + 99.9*l.r.Float64()),
			bitsHex(-500 + 1000*l.r.Float64()), bitsHex(-500 + 1000*l.r.Float64())}
	}
	return c
}

func hexFloat(v interface{}) float64 {
	s := v.(string)
	var u uint64
	for _, ch := range s {
		u <<= 4
		switch {
		case ch >= '0' && ch <= '9':
			u |= uint64(ch - '0')
		case ch >= 'a' && ch <= 'f':
			u |= uint64(ch-'a') + 10
		}
	}
	return math.Float64frombits(u)
}

// mapOf returns the map to apply to the lattice preimage before calling the library, and whether it is
// a general-position (inexact) map.
func mapOf(c Case) (func(geom.XY) geom.XY, bool) {
	if t := c.list("t"); t != nil {
		sm := simil{S: hexFloat(t[0]), Tx: hexFloat(t[1]), Ty: hexFloat(t[2]), Sym: Case{"s": t[3]}.num("s")}
		return sm.apply, false
	}
	if t := c.list("rot"); t != nil {
		th, s, tx, ty := hexFloat(t[0]), hexFloat(t[1]), hexFloat(t[2]), hexFloat(t[3])
		cs, sn := math.Cos(th), math.Sin(th)
		return func(p geom.XY) geom.XY {
			return geom.XY{X: s*(cs*p.X-sn*p.Y) + tx, Y: s*(sn*p.X+cs*p.Y) + ty}
		}, true
	}
	return nil, false
}

func imageOf(g geom.Geometry, f func(geom.XY) geom.XY) geom.Geometry {
	if f != nil {
		g = g.TransformXY(f)
	}
	return withHistory(g, curHist)
}

// curHist is the "hist" field of the case being executed (set by the driver before Exec; cases run one at a time).
var curHist int

// withHistory returns the same value - same type, structure, coordinate type and ordinates - after it has been through
// other library operations, so that it carries whatever internal representation those leave behind (spare capacity,
// shared backing arrays, a decoder's allocation pattern, a collection's member storage). The operation under test must
// not be able to tell.
func withHistory(g geom.Geometry, k int) geom.Geometry {
	switch k {
	case 1:
		if r, err := geom.UnmarshalWKB(g.AsBinary(), geom.NoValidate{}); err == nil {
			return r
		}
	case 2:
		return g.Reverse().Reverse()
	case 3:
		if g.CoordinatesType() == geom.DimXY {
			return g.ForceCoordinatesType(geom.DimXYZM).Force2D()
		}
	case 4:
		return g.TransformXY(func(p geom.XY) geom.XY { return p })
	case 5:
		// (the partner has g's coordinate type: the constructor reduces mixed members to their common subset)
		return geom.NewGeometryCollection([]geom.Geometry{g, geom.NewEmptyPoint(g.CoordinatesType()).AsGeometry()}).GeometryN(0)
	case 6:
		return respare(g)
	case 7:
		if r, err := geom.UnmarshalWKT(g.AsText(), geom.NoValidate{}); err == nil {
			return r
		}
	case 9:
		// the empty collection in the nil-pointer representation that set operations on empty operands and empty
		// envelopes hand out (the zero Geometry)
		if g.IsGeometryCollection() && g.MustAsGeometryCollection().NumGeometries() == 0 && g.CoordinatesType() == geom.DimXY {
			return geom.Geometry{}
		}
		return withHistory(g, 6)
	case 8:
		// some zero ordinates become -0 (what SnapToGrid, a subtraction or a sign flip leaves behind): the same number
		k := 0
		return g.TransformXY(func(p geom.XY) geom.XY {
			k++
			if p.X == 0 && k%2 == 0 {
				p.X = math.Copysign(0, -1)
			}
			if p.Y == 0 && k%3 == 0 {
				p.Y = math.Copysign(0, -1)
			}
			return p
		})
	}
	return g
}

// respare rebuilds every LineString and ring of g as consecutive windows (Sequence.Slice) of ONE shared backing array:
// each window's spare capacity is its successor's storage (an append through one of them overwrites the first vertex
// of the next), and the last one has free capacity behind it.
func respare(g geom.Geometry) geom.Geometry {
	ct := g.CoordinatesType()
	total := g.DumpCoordinates().Length()
	fs := make([]float64, 0, (total+8)*ct.Dimension()*2)
	type win struct{ from, to int }
	var wins []win
	add := func(c geom.Coordinates) {
		fs = append(fs, c.X, c.Y)
		if ct.Is3D() {
			fs = append(fs, c.Z)
		}
		if ct.IsMeasured() {
			fs = append(fs, c.M)
		}
	}
	// first pass: lay all elements out; second pass: cut the windows
	var collect func(g geom.Geometry)
	n := 0
	put := func(s geom.Sequence) {
		for i := 0; i < s.Length(); i++ {
			add(s.Get(i))
		}
		wins = append(wins, win{n, n + s.Length()})
		n += s.Length()
	}
	collect = func(g geom.Geometry) {
		for _, d := range g.Dump() {
			switch d.Type() {
			case geom.TypeLineString:
				put(d.MustAsLineString().Coordinates())
			case geom.TypePolygon:
				for _, r := range d.MustAsPolygon().DumpRings() {
					put(r.Coordinates())
				}
			}
		}
	}
	collect(g)
	if len(wins) == 0 {
		return g
	}
	all := geom.NewSequence(fs, ct)
	next := 0
	take := func() geom.Sequence {
		w := wins[next]
		next++
		return all.Slice(w.from, w.to)
	}
	line := func(l geom.LineString) geom.LineString { return geom.NewLineString(take()) }
	poly := func(p geom.Polygon) geom.Polygon {
		var rs []geom.LineString
		for range p.DumpRings() {
			rs = append(rs, geom.NewLineString(take()))
		}
		return geom.NewPolygon(rs).ForceCoordinatesType(ct)
	}
	var rebuild func(g geom.Geometry) geom.Geometry
	rebuild = func(g geom.Geometry) geom.Geometry {
		switch g.Type() {
		case geom.TypeLineString:
			return line(g.MustAsLineString()).AsGeometry()
		case geom.TypePolygon:
			return poly(g.MustAsPolygon()).AsGeometry()
		case geom.TypeMultiLineString:
			m := g.MustAsMultiLineString()
			var ls []geom.LineString
			for i := 0; i < m.NumLineStrings(); i++ {
				ls = append(ls, line(m.LineStringN(i)))
			}
			return geom.NewMultiLineString(ls).ForceCoordinatesType(ct).AsGeometry()
		case geom.TypeMultiPolygon:
			m := g.MustAsMultiPolygon()
			var ps []geom.Polygon
			for i := 0; i < m.NumPolygons(); i++ {
				ps = append(ps, poly(m.PolygonN(i)))
			}
			return geom.NewMultiPolygon(ps).ForceCoordinatesType(ct).AsGeometry()
		case geom.TypeGeometryCollection:
			gc := g.MustAsGeometryCollection()
			var ms []geom.Geometry
			for i := 0; i < gc.NumGeometries(); i++ {
				ms = append(ms, rebuild(gc.GeometryN(i)))
			}
			return geom.NewGeometryCollection(ms).ForceCoordinatesType(ct).AsGeometry()
		}
		return g
	}
	return rebuild(g)
}

func errStr(err error) string {
	if err == nil {
		return ""
	}
	if s := err.Error(); s != "" {
		return s
	}
	return "error"
}

func relateGen(r *rand.Rand, n int, tier string, emit func(Case)) {
	sides := []int{3, 4, 5, 6, 8, 12, 16}
	for i := 0; i < n; i++ {
		l := &lgen{r: r, N: sides[r.Intn(len(sides))]}
		if i%3 == 0 {
			l.N = 3 + r.Intn(3)
		}
		var a, b geom.Geometry
		if i < 49 {
			// every ordered pair of the 7 types at least once
			ta, tb := i/7, i%7
			if ta < 6 {
				a = l.leafOfType(ta)
			} else {
				a = l.collection(0)
			}
			if tb < 6 {
				b = l.leafOfType(tb)
			} else {
				b = l.collection(0)
			}
		} else {
			a, b = l.any(5), l.any(5)
		}
		shared := false
		if i%40 == 17 {
			// a line and one of its prefixes (valid lines on their own), later built as two views of one sequence
			la := l.lineString()
			sq := la.Coordinates()
			for k := sq.Length() - 1; k >= 2; k-- {
				if pre := geom.NewLineString(sq.Slice(0, k)); pre.Validate() == nil {
					a, b, shared = la.AsGeometry(), geom.NewLineString(seqOf(xysOf(pre.Coordinates()))).AsGeometry(), true
					break
				}
			}
		}
		mk := 0
		switch r.Intn(6) {
		case 0, 1:
			mk = 1
		case 2:
			mk = 2
		case 3:
			mk = 3
		}
		pc := pairCase(l, a, b, mk)
		if shared {
			pc["shared"] = true
			delete(pc, "hist")
		}
		emit(pc)
	}
	for i := 0; i < bigExtra(n); i++ { // large sizes
		l := bigLatticeTo(r, 12, 16)
		a, b := l.bigPair()
		emit(pairCase(l, a, b, []int{0, 0, 0, 1, 2, 3}[r.Intn(6)]))
	}
}

func xysOf(s geom.Sequence) []geom.XY {
	var out []geom.XY
	for i := 0; i < s.Length(); i++ {
		out = append(out, s.GetXY(i))
	}
	return out
}

var predFns = []func(a, b geom.Geometry) (bool, error){
	geom.Equals, geom.Disjoint, geom.Touches, geom.Contains, geom.Covers, geom.Within, geom.CoveredBy,
	geom.Crosses, geom.Overlaps,
	func(a, b geom.Geometry) (bool, error) { return geom.Intersects(a, b), nil },
}

func pairOnPanic(c Case) Event {
	if c.str("kind") == "matches" {
		return Event{"kind": "matches", "a": []*flat{}, "b": []*flat{}, "gp": false, "err": "", "ab": "", "ba": "", "preds": []bool{}, "m": c.str("m"), "p": c.str("p"), "res": false}
	}
	a0, b0 := mustWKT(c.str("wa")), mustWKT(c.str("wb"))
	_, gp := mapOf(c)
	return Event{"kind": "pair", "a": parts(a0), "b": parts(b0), "gp": gp, "err": "", "ab": "", "ba": "", "preds": []bool{}, "m": "", "p": "", "res": false}
}

func relateExec(c Case) Event {
	if c.str("kind") == "matches" {
		ev := Event{"kind": "matches", "a": []*flat{}, "b": []*flat{}, "gp": false, "err": "", "ab": "", "ba": "", "preds": []bool{},
			"m": c.str("m"), "p": c.str("p"), "res": false}
		res, err := geom.RelateMatches(c.str("m"), c.str("p"))
		ev["res"], ev["err"] = res, errStr(err)
		return ev
	}
	a0, b0 := mustWKT(c.str("wa")), mustWKT(c.str("wb"))
	f, gp := mapOf(c)
	a, b := imageOf(a0, f), imageOf(b0, f)
	if c.boolean("shared") && a.IsLineString() && b.IsLineString() {
		// b is a prefix of a: both as views (Sequence.Slice from 0) of one shared sequence
		sa := a.MustAsLineString().Coordinates()
		if nb := b.MustAsLineString().Coordinates().Length(); nb <= sa.Length() {
			a, b = geom.NewLineString(sa.Slice(0, sa.Length())).AsGeometry(), geom.NewLineString(sa.Slice(0, nb)).AsGeometry()
		}
	}
	ev := Event{"kind": "pair", "a": parts(a0), "b": parts(b0), "gp": gp, "err": "", "m": "", "p": "", "res": false}
	ab, err := geom.Relate(a, b)
	if err != nil {
		ev["err"] = errStr(err)
	}
	ba, err := geom.Relate(b, a)
	if err != nil {
		ev["err"] = errStr(err)
	}
	ev["ab"], ev["ba"] = ab, ba
	preds := make([]bool, len(predFns))
	for i, fn := range predFns {
		v, err := fn(a, b)
		if err != nil {
			ev["err"] = errStr(err)
		}
		preds[i] = v
	}
	ev["preds"] = preds
	pa, pb := ev["a"].([]*flat), ev["b"].([]*flat)
	ev["nt"] = len(pa) > 0 && len(pb) > 0 && !preds[1] // both non-empty and not disjoint
	return ev
}

func init() {
	register("relate", &Family{Gen: relateGen, Exec: relateExec, OnPanic: pairOnPanic})
}
