package main

import (
	"fmt"
	"math"
	"math/rand"
	"strconv"
	"strings"

	"github.com/peterstace/simplefeatures/geom"
)

// Family "linear" (C17): InterpolatePoint, InterpolateEvenlySpacedPoints, Simplify, Densify, SnapToGrid,
// Reverse, ForceCW / ForceCCW.

// intLine: a lattice path whose segments have integer length (axis-aligned or Pythagorean steps), with repeated
// consecutive vertices at the start, in the middle and at the end.
func intLine(r *rand.Rand) [][]int { return intLineN(r, 1+r.Intn(5)) }

func intLineN(r *rand.Rand, nsteps int) [][]int {
	steps := [][2]int{{1, 0}, {0, 1}, {-1, 0}, {0, -1}, {3, 4}, {4, 3}, {-3, 4}, {4, -3}, {-4, -3}, {3, -4}, {6, 8}, {5, 12}, {-8, 6}, {2, 0}, {0, 5}}
	x, y := r.Intn(11)-5, r.Intn(11)-5
	pts := [][]int{{x, y}}
	if r.Intn(4) == 0 {
		pts = append(pts, []int{x, y})
	}
	for i, n := 0, nsteps; i < n; i++ { // at least one step: a valid LineString has two distinct points
		s := steps[r.Intn(len(steps))]
		k := 1 + r.Intn(2)
		if s[0] != 0 && s[1] != 0 {
			k = 1
		}
		x, y = x+k*s[0], y+k*s[1]
		pts = append(pts, []int{x, y})
		if r.Intn(5) == 0 {
			pts = append(pts, []int{x, y})
		}
	}
	if r.Intn(6) == 0 { // closed
		pts = append(pts, pts[0])
	}
	return pts
}

func latticeLine(r *rand.Rand, n, side int) [][]int {
	pts := [][]int{}
	for i := 0; i < n; i++ {
		pts = append(pts, []int{r.Intn(side + 1), r.Intn(side + 1)})
		if r.Intn(6) == 0 {
			pts = append(pts, pts[len(pts)-1])
		}
	}
	return pts
}

// zBase is added to every Z and M payload lineOf produces (an exact translation of the payload axis: timestamps, heights
// above a far datum); the interpolation kind subtracts it again from what the library returns.
var zBase float64

func lineOf(pts [][]int, ct geom.CoordinatesType) (geom.LineString, []int) {
	var fs []float64
	zs := []int{}
	for i, p := range pts {
		z := (i*7)%11 - 5
		// repeated vertices carry the same payload (interpolated Z/M is then well defined)
		if i > 0 && pts[i-1][0] == p[0] && pts[i-1][1] == p[1] {
			z = zs[i-1]
		}
		zs = append(zs, z)
		fs = append(fs, float64(p[0]), float64(p[1]))
		if ct.Is3D() {
			fs = append(fs, float64(z)+zBase)
		}
		if ct.IsMeasured() {
			fs = append(fs, float64(2*z)+zBase)
		}
	}
	return geom.NewLineString(geom.NewSequence(fs, ct)), zs
}

func intsOf(v interface{}) [][]int {
	out := [][]int{}
	for _, p := range v.([]interface{}) {
		pp := p.([]interface{})
		out = append(out, []int{int(jnum(pp[0])), int(jnum(pp[1]))})
	}
	return out
}

var snapValues = []float64{0, 1, -1, 2.5, -2.5, 0.5, 1e-9, 123456.789, -98765.4321, 1e300, -1e300, 1e-300, 5e-324, 9.99999e299,
	-9.5e299, 1e15, 1e16, 4503599627370497, 0.1, 0.05, -0.05, 1e100, -1e-100, 9.999999999e9, 1099511627775.5}

func linearGen(r *rand.Rand, n int, tier string, emit func(Case)) {
	for i := 0; i < n; i++ {
		switch i % 8 {
		case 0, 1:
			ln := intLine(r)
			fd := []int{1, 2, 4, 8, 64}[r.Intn(5)]
			fn := r.Intn(3*fd+1) - fd // [-1, 2]
			if r.Intn(3) == 0 {
				fn = []int{0, fd}[r.Intn(2)]
			}
			c := Case{"kind": "interp", "line": ln, "fn": fn, "fd": fd, "ct": r.Intn(4), "zb": r.Intn(4)}
			if r.Intn(4) == 0 {
				c["rot"] = randRot(r) // general-position float image: arc-length fractions are preserved
			}
			emit(c)
		case 2:
			c := Case{"kind": "even", "line": intLine(r), "n": r.Intn(53) - 2, "ct": r.Intn(4)}
			if r.Intn(4) == 0 {
				c["rot"] = randRot(r)
			}
			emit(c)
		case 3:
			if r.Intn(6) == 0 {
				// a slab with two or three square holes of different sizes side by side, in any order, and thresholds
				// around the hole sizes: some holes collapse, the others must survive whatever their position
				sizes := [][]int{{1, 4}, {4, 1}, {1, 3, 5}, {5, 1, 3}, {3, 5, 1}, {2, 6}, {6, 2}, {1, 1, 4}, {4, 1, 1}}[r.Intn(9)]
				x := 1
				w := "POLYGON((0 0,30 0,30 10,0 10,0 0)"
				for _, sz := range sizes {
					w += fmt.Sprintf(",(%d 2,%d %d,%d %d,%d 2,%d 2)", x, x, 2+sz, x+sz, 2+sz, x+sz, x)
					x += sz + 2
				}
				w += ")"
				td := []int{1, 2, 4}[r.Intn(3)]
				emit(Case{"kind": "simplifypoly", "w": w, "tn": r.Intn(7*td + 1), "td": td, "ct": r.Intn(4)})
				continue
			}
			if r.Intn(3) == 0 {
				l := &lgen{r: r, N: 4 + r.Intn(9)}
				td := []int{1, 2, 4}[r.Intn(3)]
				emit(Case{"kind": "simplifypoly", "w": l.polygon().AsText(), "tn": r.Intn(l.N*td + 1), "td": td, "ct": r.Intn(4)})
				continue
			}
			side := 3 + r.Intn(14)
			td := []int{1, 2, 4, 16}[r.Intn(4)]
			cs := Case{"kind": "simplify", "line": latticeLine(r, 2+r.Intn(7), side), "tn": r.Intn(side*td + 1), "td": td, "ring": r.Intn(4) == 0, "ct": r.Intn(4)}
			if r.Intn(5) == 0 {
				cs["rot"] = randRot(r)
			}
			emit(cs)
		case 4:
			if r.Intn(3) == 0 {
				l := &lgen{r: r, N: 3 + r.Intn(6)}
				dd := []int{1, 2, 4}[r.Intn(3)]
				emit(Case{"kind": "densifyany", "w": l.any(4).AsText(), "dn": 1 + r.Intn(3*l.N*dd), "dd": dd, "ct": r.Intn(4)})
				continue
			}
			side := 2 + r.Intn(7)
			dd := []int{1, 2, 4, 8}[r.Intn(4)]
			cd := Case{"kind": "densify", "line": latticeLine(r, 2+r.Intn(4), side), "dn": 1 + r.Intn(10*side*dd), "dd": dd, "ct": r.Intn(4)}
			if r.Intn(5) == 0 {
				cd["rot"] = randRot(r)
			}
			emit(cd)
		case 5:
			x := snapValues[r.Intn(len(snapValues))]
			if r.Intn(3) == 0 {
				x = math.Float64frombits(r.Uint64())
				if math.IsNaN(x) || math.Abs(x) > 1e300 { // the property quantifies over finite ordinates up to +-1e300
					x = math.Copysign(1e300, x)
					if math.IsNaN(x) {
						x = 1e300
					}
				}
			}
			if r.Intn(4) == 0 {
				// exact ties: x * 10^dp is an odd multiple of one half, exactly (an odd integer over a power of two for
				// dp >= 0, an odd multiple of 5 * 10^(-dp-1) for dp < 0) - where rounding up, down, to even and away from
				// zero all differ, and oddness decides which was meant
				dp := r.Intn(7) - 3
				odd := float64(2*r.Intn(40) + 1)
				x = odd * 5 * math.Pow(10, float64(-dp-1))
				if dp >= 0 {
					x = math.Ldexp(odd, -(dp + 1))
				}
				if r.Intn(2) == 0 {
					x = -x
				}
				emit(Case{"kind": "snap", "x": bitsHex(x), "dp": dp})
				continue
			}
			emit(Case{"kind": "snap", "x": bitsHex(x), "dp": r.Intn(641) - 320})
		case 6:
			if r.Intn(3) == 0 {
				// the same three-digit mantissas at every magnitude the property names, with a grid near the value's own size
				e := r.Intn(591) - 295
				emit(Case{"kind": "snapdec", "k": r.Intn(1999) - 999, "e": e, "dp": -e + r.Intn(7) - 3})
				continue
			}
			emit(Case{"kind": "snapdec", "k": r.Intn(1999) - 999, "e": r.Intn(4) - 2, "dp": r.Intn(4) - 1})
		default:
			l := &lgen{r: r, N: 3 + r.Intn(5)}
			emit(Case{"kind": "orient", "w": l.any(4).AsText(), "ct": r.Intn(4)})
		}
	}
	for i := 0; i < bigExtra(n); i++ { // large sizes: lines and rings of many vertices, collections of many members
		l := bigLatticeTo(r, 12, 16)
		cnt := l.bigCount()
		switch i % 8 {
		case 0:
			if cnt > 36 {
				cnt = 36
			}
			fd := []int{1, 2, 4, 8, 64}[r.Intn(5)]
			emit(Case{"kind": "interp", "line": intLineN(r, cnt), "fn": r.Intn(3*fd+1) - fd, "fd": fd, "ct": r.Intn(4), "zb": r.Intn(4)})
		case 1:
			if cnt > 36 {
				cnt = 36
			}
			emit(Case{"kind": "even", "line": intLineN(r, cnt), "n": r.Intn(53) - 2, "ct": r.Intn(4)})
		case 2, 3:
			side := 3 + r.Intn(14)
			td := []int{1, 2, 4}[r.Intn(3)]
			emit(Case{"kind": "simplify", "line": latticeLine(r, cnt, side), "tn": r.Intn(side*td + 1), "td": td, "ring": r.Intn(4) == 0, "ct": r.Intn(4)})
		case 4:
			td := []int{1, 2, 4}[r.Intn(3)]
			emit(Case{"kind": "simplifypoly", "w": l.bigPolygon().AsText(), "tn": r.Intn(l.N*td/2 + 1), "td": td, "ct": r.Intn(4)})
		case 5:
			side := 2 + r.Intn(7)
			dd := []int{1, 2, 4, 8}[r.Intn(4)]
			emit(Case{"kind": "densify", "line": latticeLine(r, cnt, side), "dn": 1 + r.Intn(10*side*dd), "dd": dd, "ct": r.Intn(4)})
		case 6:
			dd := []int{1, 2, 4}[r.Intn(3)]
			emit(Case{"kind": "densifyany", "w": l.bigAny().AsText(), "dn": l.N*dd/4 + r.Intn(3*l.N*dd), "dd": dd, "ct": r.Intn(4)})
		default:
			emit(Case{"kind": "orient", "w": l.bigAny().AsText(), "ct": r.Intn(4)})
		}
	}
}

// randRot: a general-position map as in pairCase (rotation by an arbitrary angle, non-dyadic scale, offset).
func randRot(r *rand.Rand) []interface{} {
	return []interface{}{bitsHex(r.Float64() * 2 * math.Pi), bitsHex(0.1 + 99.9*r.Float64()), bitsHex(-500 + 1000*r.Float64()), bitsHex(-500 + 1000*r.Float64())}
}

func linearOnPanic(c Case) Event {
	return Event{"kind": c.str("kind"), "line": [][]int{}, "fn": 0, "fd": 1, "empty": false, "finite": false, "q": []int{0, 0}, "qz": 0, "zs": []int{},
		"n": 0, "pts": [][]int{}, "err": "", "valid": false, "kept": [][]int{}, "rings": [][][]int{}, "keptrings": [][][]int{}, "tn": 0, "td": 1, "dense": [][]int{}, "dn": 1, "dd": 1, "ctsame": false,
		"x": "0000000000000000", "s": "0000000000000000", "sneg": "0000000000000000", "ss": "0000000000000000", "claim": false,
		"k": 0, "e": 0, "dp": 0, "sd": 0, "sg": 0,
		"revrev": false, "revvalid": false, "cwok": false, "ccwok": false, "cwidem": false, "ccwidem": false, "sameverts": false}
}

func finiteXY(xy geom.XY) bool {
	return !math.IsNaN(xy.X) && !math.IsInf(xy.X, 0) && !math.IsNaN(xy.Y) && !math.IsInf(xy.Y, 0)
}

func sortedVerts(g geom.Geometry) string {
	// multiset of ring vertices (without the closing vertex), per ring, independent of start and direction
	var sb strings.Builder
	ring := func(ls geom.LineString) {
		seq := ls.Coordinates()
		var toks []string
		for i := 0; i+1 < seq.Length(); i++ {
			toks = append(toks, strings.Join(coordToks(seq.Get(i)), ","))
		}
		sortStrings(toks)
		sb.WriteString(strings.Join(toks, ";") + "|")
	}
	var rec func(g geom.Geometry)
	rec = func(g geom.Geometry) {
		switch g.Type() {
		case geom.TypePolygon:
			for _, r := range g.MustAsPolygon().DumpRings() {
				ring(r)
			}
		case geom.TypeMultiPolygon, geom.TypeGeometryCollection:
			for _, d := range g.Dump() {
				rec(d)
			}
			if g.Type() == geom.TypeGeometryCollection {
				sb.WriteString("#")
			}
		default:
			sb.WriteString(g.AsText())
		}
	}
	rec(g)
	return sb.String()
}

func sortStrings(s []string) {
	for i := 1; i < len(s); i++ {
		for j := i; j > 0 && s[j] < s[j-1]; j-- {
			s[j], s[j-1] = s[j-1], s[j]
		}
	}
}

func linearExec(c Case) Event {
	ev := linearOnPanic(c)
	ct := ctypes[c.num("ct")%4]
	switch c.str("kind") {
	case "interp":
		pts := intsOf(c["line"])
		zBase = 0
		if _, ok := c["zb"]; ok {
			zBase = []float64{0, 1700000000, 1 << 40, -(1 << 31)}[c.num("zb")%4]
		}
		ls, zs := lineOf(pts, ct)
		base := zBase
		zBase = 0
		ev["line"], ev["zs"], ev["fn"], ev["fd"] = pts, zs, c.num("fn"), c.num("fd")
		f, _ := mapOf(c)
		inv := invOf(c)
		if f != nil {
			ls = ls.TransformXY(f)
		}
		p := ls.InterpolatePoint(float64(c.num("fn")) / float64(c.num("fd")))
		co, ok := p.Coordinates()
		if ok && inv != nil && finiteXY(co.XY) {
			co.XY = inv(co.XY)
		}
		ev["empty"] = !ok
		if ok {
			fin := finiteXY(co.XY) && !math.IsNaN(co.Z) && !math.IsNaN(co.M)
			ev["finite"] = fin
			if fin {
				ev["q"] = []int{scaled(co.X, 1024), scaled(co.Y, 1024)}
				z := 0.0
				if ct.Is3D() {
					z = co.Z - base
				} else if ct.IsMeasured() {
					z = (co.M - base) / 2
				} else {
					// no payload: make the z check pass trivially by logging the expected value's slot as 0 with zs = 0
					ev["zs"] = make([]int, len(pts))
				}
				ev["qz"] = scaled(z, 1024)
				if p.CoordinatesType() != ct {
					ev["finite"] = false
				}
			}
		}
	case "even":
		pts := intsOf(c["line"])
		ls, _ := lineOf(pts, ct)
		ev["line"], ev["n"] = pts, c.num("n")
		f, _ := mapOf(c)
		inv := invOf(c)
		if f != nil {
			ls = ls.TransformXY(f)
		}
		mp := ls.InterpolateEvenlySpacedPoints(c.num("n"))
		out := [][]int{}
		for i := 0; i < mp.NumPoints(); i++ {
			xy, ok := mp.PointN(i).XY()
			if !ok || !finiteXY(xy) {
				out = append(out, []int{-999999, -999999})
				continue
			}
			if inv != nil {
				xy = inv(xy)
			}
			out = append(out, []int{scaled(xy.X, 1024), scaled(xy.Y, 1024)})
		}
		ev["pts"] = out
	case "simplify":
		pts := intsOf(c["line"])
		if c.boolean("ring") {
			pts = append(pts, pts[0])
		}
		ls, _ := lineOf(pts, ct)
		ev["line"], ev["tn"], ev["td"] = pts, c.num("tn"), c.num("td")
		t := float64(c.num("tn")) / float64(c.num("td"))
		if ls.Validate() != nil {
			ev["err"] = "skip-invalid-input"
			return ev
		}
		f, gp := mapOf(c)
		lsg := ls.AsGeometry()
		if f != nil {
			lsg = lsg.TransformXY(f)
			t *= scaleOf(c)
		}
		res, err := lsg.Simplify(t)
		if err != nil {
			ev["err"] = errStr(err)
			return ev
		}
		ev["valid"] = res.Validate() == nil && res.CoordinatesType() == ct && res.IsLineString()
		if gp {
			res = res.TransformXY(snapLattice(invOf(c))) // kept vertices are original vertices
		}
		ev["kept"] = seqInts(res.DumpCoordinates())
	case "simplifypoly":
		g := mustWKT(c.str("w")).ForceCoordinatesType(ct)
		ev["tn"], ev["td"] = c.num("tn"), c.num("td")
		ev["rings"] = polyInts(g.MustAsPolygon())
		if g.Validate() != nil {
			ev["err"] = "skip-invalid-input"
			return ev
		}
		res, err := g.Simplify(float64(c.num("tn")) / float64(c.num("td")))
		if err != nil {
			ev["err"] = errStr(err)
			return ev
		}
		ev["valid"] = res.Validate() == nil && res.CoordinatesType() == ct && res.IsPolygon()
		ev["keptrings"] = polyInts(res.MustAsPolygon())
	case "densifyany":
		// Densify on any geometry: every lineal element (LineString members and polygon rings, in Dump order) must
		// satisfy the same contract as a single line; points and the structure are untouched
		g0 := mustWKT(c.str("w")).ForceCoordinatesType(ct)
		ev["dn"], ev["dd"] = c.num("dn"), c.num("dd")
		res := g0.Densify(float64(c.num("dn")) / float64(c.num("dd")))
		elems := func(g geom.Geometry, k float64) ([][][]int, []string) {
			out := [][][]int{}
			shape := []string{}
			add := func(seq geom.Sequence) {
				e := [][]int{}
				for i := 0; i < seq.Length(); i++ {
					xy := seq.GetXY(i)
					e = append(e, []int{scaled(xy.X, k), scaled(xy.Y, k)})
				}
				out = append(out, e)
			}
			for _, d := range g.Dump() {
				shape = append(shape, d.Type().String())
				switch d.Type() {
				case geom.TypePoint:
					if xy, ok := d.MustAsPoint().XY(); ok {
						out = append(out, [][]int{{scaled(xy.X, k), scaled(xy.Y, k)}})
					}
				case geom.TypeLineString:
					add(d.MustAsLineString().Coordinates())
				case geom.TypePolygon:
					for _, r := range d.MustAsPolygon().DumpRings() {
						add(r.Coordinates())
					}
				}
			}
			return out, shape
		}
		a, sa := elems(g0, 1)
		b, sb := elems(res, 256)
		ev["rings"], ev["keptrings"] = a, b
		ev["ctsame"] = res.CoordinatesType() == ct && res.Type() == g0.Type() && fmt.Sprint(sa) == fmt.Sprint(sb)
	case "densify":
		pts := intsOf(c["line"])
		ls, _ := lineOf(pts, ct)
		ev["line"], ev["dn"], ev["dd"] = pts, c.num("dn"), c.num("dd")
		d := float64(c.num("dn")) / float64(c.num("dd"))
		f, gp := mapOf(c)
		if f != nil {
			ls = ls.TransformXY(f)
			d *= scaleOf(c)
		}
		res := ls.Densify(d)
		if gp {
			res = res.TransformXY(snapLattice(invOf(c))) // original vertices come back exactly, added points as floats
		}
		seq := res.Coordinates()
		out := [][]int{}
		for i := 0; i < seq.Length(); i++ {
			xy := seq.GetXY(i)
			out = append(out, []int{scaled(xy.X, 256), scaled(xy.Y, 256)})
		}
		ev["dense"] = out
		ev["ctsame"] = res.CoordinatesType() == ct
	case "snap":
		x := hexFloat(c["x"])
		dp := c.num("dp")
		snap := func(v float64) float64 {
			xy, _ := geom.XY{X: v, Y: 1}.AsPoint().SnapToGrid(dp).XY()
			return xy.X
		}
		s := snap(x)
		ev["x"], ev["s"], ev["sneg"], ev["ss"] = bitsHex(x), bitsHex(s), bitsHex(snap(-x)), bitsHex(snap(s))
		ev["claim"] = math.Abs(x)*math.Pow(10, float64(dp)) < 1<<40 && !math.IsNaN(x)
		ev["dp"] = dp
	case "snapdec":
		k, e, dp := c.num("k"), c.num("e"), c.num("dp")
		x, err := strconv.ParseFloat(strconv.Itoa(k)+"e"+strconv.Itoa(e), 64)
		if err != nil {
			panic(err)
		}
		xy, _ := geom.XY{X: x, Y: 0}.AsPoint().SnapToGrid(dp).XY()
		// shortest decimal representation of the result: digits * 10^exp
		// nine significant digits (the result of a snap is n * 10^-dp computed in floats: its shortest representation may
		// need all 17 digits; the verdict is taken in units that are at least 1e-7 of the value, so 1e-9 is noise)
		txt := strconv.FormatFloat(xy.X, 'e', 8, 64)
		mant, exp := txt, 0
		if i := strings.IndexByte(txt, 'e'); i >= 0 {
			mant = txt[:i]
			exp, _ = strconv.Atoi(txt[i+1:])
		}
		neg := strings.HasPrefix(mant, "-")
		mant = strings.TrimPrefix(mant, "-")
		digits := strings.Replace(mant, ".", "", 1)
		if i := strings.IndexByte(mant, '.'); i >= 0 {
			exp -= len(mant) - i - 1
		}
		sd, err := strconv.Atoi(digits)
		if err != nil || sd >= 1<<30 {
			panic("snapped value has too many digits: " + txt)
		}
		for sd != 0 && sd%10 == 0 {
			sd /= 10
			exp++
		}
		if neg {
			sd = -sd
		}
		if sd == 0 {
			exp = e // zero has every exponent: take the input's, so that the comparison stays in small integers
		}
		ev["k"], ev["e"], ev["dp"], ev["sd"], ev["sg"] = k, e, dp, sd, exp
	case "orient":
		g := mustWKT(c.str("w")).ForceCoordinatesType(ct)
		rr := g.Reverse().Reverse()
		ev["revrev"] = geom.ExactEquals(rr, g) && string(rr.AsBinary()) == string(g.AsBinary())
		ev["valid"], ev["revvalid"] = g.Validate() == nil, g.Reverse().Validate() == nil
		cw, ccw := g.ForceCW(), g.ForceCCW()
		ev["cwok"], ev["ccwok"] = cw.IsCW(), ccw.IsCCW()
		ev["cwidem"] = string(cw.ForceCW().AsBinary()) == string(cw.AsBinary())
		ev["ccwidem"] = string(ccw.ForceCCW().AsBinary()) == string(ccw.AsBinary())
		ev["sameverts"] = sortedVerts(cw) == sortedVerts(g) && sortedVerts(ccw) == sortedVerts(g)
	}
	return ev
}

func init() {
	register("linear", &Family{Gen: linearGen, Exec: linearExec, OnPanic: linearOnPanic})
}
