package main

import (
	"encoding/hex"
	"encoding/json"
	"fmt"
	"math"
	"math/rand"
	"runtime"
	"runtime/debug"
	"strings"

	"github.com/peterstace/simplefeatures/geom"
)

// Family "decode" (C08): every decoder on untrusted input, executed in a sacrificial worker process.
//
// case:  {fmt: wkb|twkb|wkt|geojson, hex | text | bytes}
// event: fmt, len, outcome (ok|err|panic|crash|timeout), which (function that misbehaved), alloc (bytes allocated
//        by the decoders, capped), validnil (a geometry returned by a validating decoder passes Validate),
//        reenc (every returned geometry could be re-encoded in every format without panicking)

func decodeInput(c Case) []byte {
	if h := c.str("hex"); h != "" {
		b, err := hex.DecodeString(h)
		if err != nil {
			panic(err)
		}
		return b
	}
	if _, ok := c["bytes"]; ok {
		var bs []byte
		for _, b := range c.ints("bytes") {
			bs = append(bs, byte(b))
		}
		return bs
	}
	return []byte(c.str("text"))
}

func decodeOnPanic(c Case) Event {
	return Event{"fmt": c.str("fmt"), "len": len(decodeInput(c)), "outcome": "panic", "which": "", "alloc": 0, "sysgrow": 0, "validnil": true, "reenc": true}
}

// reencodeAll: a returned geometry must be encodable in every format without panicking.
func reencodeAll(g geom.Geometry) {
	_ = g.AsText()
	_ = g.AsBinary()
	_, _ = g.MarshalJSON()
	_, _ = geom.MarshalTWKB(g, 0)
	_, _ = geom.MarshalTWKB(g, 3, geom.TWKBSizeHeader(), geom.TWKBBoundingBoxHeader())
	_ = g.Envelope()
	_ = g.IsEmpty()
}

type decodeFn struct {
	name     string
	validate bool
	fn       func(b []byte) (geom.Geometry, bool, error) // geometry, has geometry, error
}

func geomFn(name string, validate bool, f func(b []byte) (geom.Geometry, error)) decodeFn {
	return decodeFn{name, validate, func(b []byte) (geom.Geometry, bool, error) {
		g, err := f(b)
		return g, err == nil, err
	}}
}

func noGeomFn(name string, f func(b []byte) error) decodeFn {
	return decodeFn{name, false, func(b []byte) (geom.Geometry, bool, error) { return geom.Geometry{}, false, f(b) }}
}

var decodeFns = map[string][]decodeFn{
	"wkb": {
		geomFn("UnmarshalWKB", true, func(b []byte) (geom.Geometry, error) { return geom.UnmarshalWKB(b) }),
		geomFn("UnmarshalWKB(NoValidate)", false, func(b []byte) (geom.Geometry, error) { return geom.UnmarshalWKB(b, geom.NoValidate{}) }),
		geomFn("Geometry.Scan", true, func(b []byte) (geom.Geometry, error) { return scanInto(7, b) }),
		geomFn("Point.Scan", true, func(b []byte) (geom.Geometry, error) { return scanInto(0, b) }),
		geomFn("LineString.Scan", true, func(b []byte) (geom.Geometry, error) { return scanInto(1, b) }),
		geomFn("Polygon.Scan", true, func(b []byte) (geom.Geometry, error) { return scanInto(2, b) }),
		geomFn("MultiPoint.Scan", true, func(b []byte) (geom.Geometry, error) { return scanInto(3, b) }),
		geomFn("MultiLineString.Scan", true, func(b []byte) (geom.Geometry, error) { return scanInto(4, b) }),
		geomFn("MultiPolygon.Scan", true, func(b []byte) (geom.Geometry, error) { return scanInto(5, b) }),
		geomFn("GeometryCollection.Scan", true, func(b []byte) (geom.Geometry, error) { return scanInto(6, b) }),
	},
	"twkb": {
		geomFn("UnmarshalTWKB", true, func(b []byte) (geom.Geometry, error) { return geom.UnmarshalTWKB(b) }),
		geomFn("UnmarshalTWKB(NoValidate)", false, func(b []byte) (geom.Geometry, error) { return geom.UnmarshalTWKB(b, geom.NoValidate{}) }),
		noGeomFn("UnmarshalTWKBSize", func(b []byte) error { _, _, err := geom.UnmarshalTWKBSize(b); return err }),
		noGeomFn("UnmarshalTWKBEnvelope", func(b []byte) error { _, _, err := geom.UnmarshalTWKBEnvelope(b); return err }),
		noGeomFn("UnmarshalTWKBIDList", func(b []byte) error { _, _, err := geom.UnmarshalTWKBIDList(b); return err }),
	},
	"wkt": {
		geomFn("UnmarshalWKT", true, func(b []byte) (geom.Geometry, error) { return geom.UnmarshalWKT(string(b)) }),
		geomFn("UnmarshalWKT(NoValidate)", false, func(b []byte) (geom.Geometry, error) { return geom.UnmarshalWKT(string(b), geom.NoValidate{}) }),
	},
	"geojson": {
		geomFn("UnmarshalGeoJSON", true, func(b []byte) (geom.Geometry, error) { return geom.UnmarshalGeoJSON(b) }),
		geomFn("UnmarshalGeoJSON(NoValidate)", false, func(b []byte) (geom.Geometry, error) { return geom.UnmarshalGeoJSON(b, geom.NoValidate{}) }),
		geomFn("Geometry.UnmarshalJSON", true, func(b []byte) (geom.Geometry, error) {
			var g geom.Geometry
			err := json.Unmarshal(b, &g)
			return g, err
		}),
		noGeomFn("concrete.UnmarshalJSON", func(b []byte) error {
			var err error
			for i := 0; i < 7; i++ {
				if e := unmarshalInto(i, b); e != nil {
					err = e
				}
			}
			return err
		}),
		noGeomFn("GeoJSONFeature.UnmarshalJSON", func(b []byte) error { var f geom.GeoJSONFeature; return json.Unmarshal(b, &f) }),
		noGeomFn("GeoJSONFeatureCollection.UnmarshalJSON", func(b []byte) error {
			var f geom.GeoJSONFeatureCollection
			return json.Unmarshal(b, &f)
		}),
	},
}

func decodeExec(c Case) (ev Event) {
	in := decodeInput(c)
	ev = Event{"fmt": c.str("fmt"), "len": len(in), "outcome": "err", "which": "", "alloc": 0, "sysgrow": 0, "validnil": true, "reenc": true}
	fns := decodeFns[c.str("fmt")]
	if fns == nil {
		panic("unknown fmt " + c.str("fmt"))
	}
	current := ""
	defer func() {
		if r := recover(); r != nil {
			ev["outcome"] = "panic"
			ev["which"] = current + ": " + fmt.Sprint(r)
		}
	}()
	var m0, m1 runtime.MemStats
	// return everything the heap holds to the operating system first, so that what the heap holds after the
	// calls is what this input made it acquire (independent of earlier inputs in the same worker)
	debug.FreeOSMemory()
	runtime.ReadMemStats(&m0)
	type got struct {
		g        geom.Geometry
		validate bool
		name     string
	}
	var gs []got
	for _, f := range fns {
		current = f.name
		buf := append([]byte(nil), in...) // decoders must not rely on, or damage, the caller's buffer
		g, has, err := f.fn(buf)
		if err == nil {
			ev["outcome"] = "ok"
			if has {
				gs = append(gs, got{g, f.validate, f.name})
			}
		}
	}
	runtime.ReadMemStats(&m1)
	alloc := m1.TotalAlloc - m0.TotalAlloc
	if alloc > 1<<30 {
		alloc = 1 << 30
	}
	ev["alloc"] = int(alloc)
	// memory newly obtained from the operating system while decoding: what the input made the process reserve
	held0, held1 := m0.HeapSys-m0.HeapReleased, m1.HeapSys-m1.HeapReleased
	var grow uint64
	if held1 > held0 {
		grow = held1 - held0
	}
	if grow > 1<<30 {
		grow = 1 << 30
	}
	ev["sysgrow"] = int(grow)
	for _, x := range gs {
		current = "Validate after " + x.name
		if x.validate && x.g.Validate() != nil {
			ev["validnil"] = false
			ev["which"] = x.name
		}
		current = "re-encode after " + x.name
		reencodeAll(x.g)
	}
	return ev
}

// ---------------------------------------------------------------- input generation

func corpus(r *rand.Rand) map[string][][]byte {
	out := map[string][][]byte{}
	add := func(g geom.Geometry) {
		out["wkb"] = append(out["wkb"], g.AsBinary())
		out["wkt"] = append(out["wkt"], []byte(g.AsText()))
		if b, err := g.MarshalJSON(); err == nil {
			out["geojson"] = append(out["geojson"], b)
		}
		for _, opts := range [][]geom.TWKBWriterOption{nil, {geom.TWKBSizeHeader(), geom.TWKBBoundingBoxHeader()}} {
			if b, err := geom.MarshalTWKB(g, r.Intn(4), opts...); err == nil {
				out["twkb"] = append(out["twkb"], b)
			}
		}
	}
	for i := 0; i < 40; i++ {
		tg := &treeGen{r: r, finite: true, simple: true}
		add(buildTree(tg.tree(0, ctypes[i%4], typeNames[i%7])))
	}
	l := &lgen{r: r, N: 6}
	for i := 0; i < 20; i++ {
		add(l.any(3))
	}
	for i := 0; i < 6; i++ { // large sizes: sequences, member lists and ring lists beyond the usual buffer sizes
		tg := &treeGen{r: r, finite: true, simple: true, big: true}
		add(buildTree(tg.tree(0, ctypes[i%4], typeNames[1+i%6])))
	}
	for _, m := range []int{17, 33, 70} { // ... and every kind of count above 16, 32 and 64, whatever the generator drew
		var pts, lines, holes, members []string
		for k := 0; k < m; k++ {
			pts = append(pts, fmt.Sprintf("%d %d", k, (k*k)%7))
			lines = append(lines, fmt.Sprintf("(%d 0,%d 1)", k, k))
			holes = append(holes, fmt.Sprintf("(%d 1,%d 1,%d 2,%d 1)", 3*k+1, 3*k+2, 3*k+1, 3*k+1))
			members = append(members, fmt.Sprintf("POINT(%d %d)", k, k%3))
		}
		for _, w := range []string{
			"MULTIPOINT(" + strings.Join(pts, ",") + ")",
			"LINESTRING(" + strings.Join(pts, ",") + ")",
			"MULTILINESTRING(" + strings.Join(lines, ",") + ")",
			fmt.Sprintf("POLYGON((0 0,%d 0,%d 3,0 3,0 0),", 3*m+1, 3*m+1) + strings.Join(holes, ",") + ")",
			"GEOMETRYCOLLECTION(" + strings.Join(members, ",") + ")",
		} {
			add(mustWKT(w))
		}
	}
	mp := geom.NewMultiPoint([]geom.Point{geom.XY{X: 1, Y: 2}.AsPoint(), geom.XY{X: 3, Y: 4}.AsPoint()}).AsGeometry()
	// TWKB with the optional headers (id list, size, bounding box) on collection types: first in the corpus, so that the
	// structured sweeps (every truncation, every count / varint overwrite at every position) always include them
	gcIDs := geom.NewGeometryCollection([]geom.Geometry{mp, geom.XY{X: 5, Y: 6}.AsPoint().AsGeometry()}).AsGeometry()
	for _, e := range []struct {
		g    geom.Geometry
		opts []geom.TWKBWriterOption
	}{
		{mp, []geom.TWKBWriterOption{geom.TWKBIDList([]int64{5, -7})}},
		{mp, []geom.TWKBWriterOption{geom.TWKBIDList([]int64{5, -7}), geom.TWKBSizeHeader(), geom.TWKBBoundingBoxHeader()}},
		{gcIDs, []geom.TWKBWriterOption{geom.TWKBIDList([]int64{1, 2})}},
	} {
		if b, err := geom.MarshalTWKB(e.g, 0, e.opts...); err == nil {
			out["twkb"] = append([][]byte{b}, out["twkb"]...)
		}
	}
	// TWKB collections whose members carry different dimension headers (a writer never produces them - collections have
	// one coordinate type - but every member has a header of its own, and a reader must take each as it comes)
	memb := []geom.Geometry{mustWKT("POINT Z(1 2 3)"), mustWKT("POINT(4 5)"), mustWKT("POINT M(1 2 9)"), mustWKT("MULTIPOINT ZM((1 2 3 4),(5 6 7 8))"),
		mustWKT("LINESTRING(0 0,1 1)"), mustWKT("LINESTRING Z(0 0 1,1 1 2)"), mustWKT("MULTIPOINT((7 8))"), mustWKT("POLYGON M((0 0 1,1 0 2,0 1 3,0 0 1))")}
	for i := range memb { // every ordered pair
		for k := range memb {
			b := []byte{0x07, 0x00, 2}
			for _, m := range []geom.Geometry{memb[i], memb[k]} {
				mb, err := geom.MarshalTWKB(m, 0)
				if err != nil {
					panic(err)
				}
				b = append(b, mb...)
			}
			out["twkb"] = append(out["twkb"], b)
		}
	}
	f := geom.GeoJSONFeature{Geometry: mp, ID: 5, Properties: map[string]interface{}{"a": 1}}
	fb, _ := json.Marshal(f)
	fcb, _ := json.Marshal(geom.GeoJSONFeatureCollection{f, f})
	out["geojson"] = append(out["geojson"], fb, fcb)
	return out
}

var wildPool = []float64{0, 1, -1, 0.5, 1e300, -1e300, 1e-300, 1e150, -1e150, 1e-150, math.MaxFloat64, -math.MaxFloat64, 5e-324, 3, 1e21,
	123456789.12345679, 0.30000000000000004, 2.2250738585072014e-308}

func wildValue(r *rand.Rand) float64 {
	switch r.Intn(3) {
	case 0:
		return wildPool[r.Intn(len(wildPool))]
	case 1:
		return float64(r.Intn(2001) - 1000)
	}
	v := math.Float64frombits(r.Uint64())
	if math.IsNaN(v) || math.IsInf(v, 0) {
		return 1
	}
	return v
}

var countValues = [][]byte{{0, 0, 0, 0}, {1, 0, 0, 0}, {255, 255, 255, 127}, {0, 0, 0, 128}, {255, 255, 255, 255}, {0, 0, 0, 1}, {127, 255, 255, 255}}

func varintOf(k int) []byte {
	if k >= 64 { // 2^64-1
		return []byte{255, 255, 255, 255, 255, 255, 255, 255, 255, 1}
	}
	out := []byte{}
	for i := 0; i < k/7; i++ {
		out = append(out, 0x80)
	}
	return append(out, 1<<uint(k%7))
}

var textTokens = []string{"(", ")", ",", " ", "EMPTY", "POINT", "GEOMETRYCOLLECTION", "Z", "M", "ZM", "-", "1e999", "NaN", "Inf", "1e-400", "0x10",
	"[", "]", "{", "}", ":", "null", "\"type\"", "\"coordinates\"", "\"geometries\"", "\"Polygon\"", "\"Feature\"", "1.5", "[]", "[[]]", "\"\"", "\\", "\""}

func decodeGen(r *rand.Rand, n int, tier string, emit func(Case)) {
	corp := corpus(r)
	fmts := []string{"wkb", "twkb", "wkt", "geojson"}
	bin := func(f string, b []byte) { emit(Case{"fmt": f, "hex": hex.EncodeToString(b)}) }
	txt := func(f string, b []byte) { emit(Case{"fmt": f, "text": string(b)}) }
	put := func(f string, b []byte) {
		if len(b) > 65536 {
			b = b[:65536]
		}
		if f == "wkb" || f == "twkb" {
			bin(f, b)
		} else {
			txt(f, b)
		}
	}
	mutate := func(f string, src []byte) []byte {
		b := append([]byte(nil), src...)
		switch k := r.Intn(10); {
		case k == 0 && len(b) > 0: // truncate
			b = b[:r.Intn(len(b))]
		case k == 1 && len(b) > 0: // byte substitution
			b[r.Intn(len(b))] = []byte{0, 1, 2, 7, 8, 127, 128, 254, 255, byte(r.Intn(256))}[r.Intn(10)]
		case k == 2 && len(b) >= 4: // 4-byte count overwrite
			o := r.Intn(len(b) - 3)
			copy(b[o:], countValues[r.Intn(len(countValues))])
		case k == 3 && len(b) > 0: // varint overwrite
			o := r.Intn(len(b))
			v := varintOf([]int{7, 14, 21, 28, 31, 32, 35, 40, 56, 62, 63, 64}[r.Intn(12)])
			b = append(append(append([]byte(nil), b[:o]...), v...), b[o+1:]...)
		case k == 4 && len(b) > 0: // delete a span
			o := r.Intn(len(b))
			e := o + 1 + r.Intn(4)
			if e > len(b) {
				e = len(b)
			}
			b = append(b[:o], b[e:]...)
		case k == 5: // splice with another corpus entry
			other := corp[f][r.Intn(len(corp[f]))]
			if len(b) > 0 && len(other) > 0 {
				b = append(append([]byte(nil), b[:r.Intn(len(b))]...), other[r.Intn(len(other)):]...)
			}
		case k == 6 && len(b) > 0: // duplicate a span
			o := r.Intn(len(b))
			e := o + 1 + r.Intn(8)
			if e > len(b) {
				e = len(b)
			}
			b = append(append(append([]byte(nil), b[:e]...), b[o:e]...), b[e:]...)
		case k == 7 && (f == "wkt" || f == "geojson"): // token insertion / replacement
			t := textTokens[r.Intn(len(textTokens))]
			o := r.Intn(len(b) + 1)
			b = append(append(append([]byte(nil), b[:o]...), t...), b[o:]...)
		default:
			if len(b) > 0 {
				b[r.Intn(len(b))] ^= 1 << uint(r.Intn(8))
			}
		}
		return b
	}
	i := 0
	// every corpus entry as it is (the sweeps and mutations below never feed an entry unchanged)
	for _, f := range fmts {
		for _, src := range corp[f] {
			put(f, src)
			i++
		}
	}
	// structured sweeps over small corpus entries: every truncation, every count position
	for _, f := range fmts {
		// every format gets its share (the binary formats take six to eleven cases per position: left to itself the
		// first one used up the whole allowance and the TWKB sweeps never reached an entry with a point array)
		limit := i + n/8
		for ci, src := range corp[f] {
			if (ci%4 != 0 && !(f == "twkb" && ci < 3)) || len(src) > 120 {
				continue
			}
			for o := 0; o < len(src) && i < limit; o++ {
				put(f, src[:o])
				i++
				if (f == "wkb" || f == "twkb") && o+4 <= len(src) {
					for _, cv := range countValues[:5] {
						b := append([]byte(nil), src...)
						copy(b[o:], cv)
						put(f, b)
						i++
					}
				}
				if f == "twkb" {
					for _, k := range []int{31, 35, 62, 63, 64} {
						b := append(append(append([]byte(nil), src[:o]...), varintOf(k)...), src[o+1:]...)
						put(f, b)
						i++
					}
				}
			}
		}
	}
	for ; i < n; i++ {
		f := fmts[r.Intn(4)]
		if i%5 == 4 {
			// well-formed encodings of areal geometries whose ordinates mix every magnitude (1e-300 .. 1e308, subnormals,
			// integers): the validating decoders run ring simplicity, hole nesting and member interaction at the limits of
			// float64, where cross products overflow to NaN or underflow to zero
			put3 := func(g geom.Geometry) {
				switch r.Intn(3) {
				case 0:
					put("wkt", []byte(g.AsText()))
				case 1:
					put("wkb", g.AsBinary())
				default:
					if b, err := g.MarshalJSON(); err == nil {
						put("geojson", b)
					} else {
						put("wkt", []byte(g.AsText()))
					}
				}
			}
			// ... or stay on a small lattice (touching, nested, overlapping and valid neighbours), with EMPTY members at any position
			val := func() float64 { return wildValue(r) }
			if r.Intn(2) == 0 {
				val = func() float64 { return float64(r.Intn(7)) }
			}
			var polys []geom.Polygon
			for k, np := 0, 1+r.Intn(3); k < np; k++ {
				if r.Intn(4) == 0 {
					polys = append(polys, geom.Polygon{})
				}
				var rings []geom.LineString
				for h, nh := 0, 1+r.Intn(3); h < nh; h++ {
					var fs []float64
					if h == 0 && r.Intn(3) == 0 { // a valid triangle or square somewhere on the lattice
						x, y, d := float64(r.Intn(5)), float64(r.Intn(5)), float64(1+r.Intn(2))
						fs = []float64{x, y, x + d, y, x, y + d}
						if r.Intn(2) == 0 {
							fs = []float64{x, y, x + d, y, x + d, y + d, x, y + d}
						}
						fs = append(fs, fs[0], fs[1])
						rings = append(rings, geom.NewLineString(geom.NewSequence(fs, geom.DimXY)))
						break
					}
					for j, m := 0, 3+r.Intn(3); j < m; j++ {
						fs = append(fs, val(), val())
					}
					fs = append(fs, fs[0], fs[1])
					rings = append(rings, geom.NewLineString(geom.NewSequence(fs, geom.DimXY)))
				}
				polys = append(polys, geom.NewPolygon(rings))
				if r.Intn(6) == 0 {
					polys = append(polys, geom.Polygon{})
				}
			}
			switch r.Intn(3) {
			case 0:
				put3(polys[len(polys)-1].AsGeometry())
			case 1:
				put3(geom.NewMultiPolygon(polys).AsGeometry())
			default:
				ms := []geom.Geometry{geom.NewMultiPolygon(polys).AsGeometry()}
				for _, p := range polys {
					ms = append(ms, p.ExteriorRing().AsGeometry())
				}
				put3(geom.NewGeometryCollection(ms).AsGeometry())
			}
			continue
		}
		switch r.Intn(12) {
		case 0: // arbitrary bytes
			ln := r.Intn(64)
			if r.Intn(20) == 0 {
				ln = r.Intn(65536)
			}
			b := make([]byte, ln)
			r.Read(b)
			put(f, b)
		case 1: // deep nesting
			depth := 1 + r.Intn(400)
			switch f {
			case "wkt":
				put(f, []byte(strings.Repeat("GEOMETRYCOLLECTION(", depth)+"POINT(1 1)"+strings.Repeat(")", depth-r.Intn(2))))
			case "geojson":
				d := depth / 4
				put(f, []byte(strings.Repeat(`{"type":"GeometryCollection","geometries":[`, d)+`{"type":"Point","coordinates":[1,2]}`+strings.Repeat("]}", d)))
			case "wkb":
				b := []byte{}
				for k := 0; k < depth; k++ {
					b = append(b, 1, 7, 0, 0, 0, 1, 0, 0, 0)
				}
				put(f, append(b, 1, 1, 0, 0, 0, 0, 0, 0, 0, 0, 0, 240, 63, 0, 0, 0, 0, 0, 0, 0, 64))
			default:
				b := []byte{}
				for k := 0; k < depth; k++ {
					b = append(b, 7, 0, 1)
				}
				put(f, append(b, 1, 0, 2, 4))
			}
		default:
			b := corp[f][r.Intn(len(corp[f]))]
			for k, m := 0, 1+r.Intn(3); k < m; k++ {
				b = mutate(f, b)
			}
			put(f, b)
		}
	}
}

func init() {
	register("decode", &Family{Gen: decodeGen, Exec: decodeExec, OnPanic: decodeOnPanic, Isolated: true})
}
