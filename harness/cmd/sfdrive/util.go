package main

import (
	"bytes"
	"encoding/json"
	"fmt"
	"github.com/peterstace/simplefeatures/geom"
	"math"
	"strconv"
)

func decodeCase(b []byte) (Case, error) {
	var c Case
	dec := json.NewDecoder(bytes.NewReader(b))
	dec.UseNumber()
	err := dec.Decode(&c)
	return c, err
}

// normalize round-trips a case through JSON so that Exec sees the same value
// types in record mode and in one/replay mode.
func normalize(c Case) Case {
	b, err := json.Marshal(c)
	if err != nil {
		panic(err)
	}
	out, err := decodeCase(b)
	if err != nil {
		panic(err)
	}
	return out
}

func (c Case) str(k string) string {
	v, ok := c[k]
	if !ok {
		return ""
	}
	switch x := v.(type) {
	case string:
		return x
	case json.Number:
		return x.String()
	}
	return fmt.Sprint(v)
}

func (c Case) num(k string) int {
	v, ok := c[k]
	if !ok {
		return 0
	}
	switch x := v.(type) {
	case json.Number:
		n, err := x.Int64()
		if err != nil {
			f, _ := x.Float64()
			return int(f)
		}
		return int(n)
	case int:
		return x
	case float64:
		return int(x)
	case bool:
		if x {
			return 1
		}
		return 0
	}
	panic("not a number: " + k)
}

func (c Case) flt(k string) float64 {
	v, ok := c[k]
	if !ok {
		return 0
	}
	switch x := v.(type) {
	case json.Number:
		f, _ := x.Float64()
		return f
	case string:
		f, err := strconv.ParseFloat(x, 64)
		if err != nil {
			panic(err)
		}
		return f
	case float64:
		return x
	case int:
		return float64(x)
	}
	panic("not a number: " + k)
}

func (c Case) boolean(k string) bool {
	v, ok := c[k]
	if !ok {
		return false
	}
	b, _ := v.(bool)
	return b
}

func (c Case) list(k string) []interface{} {
	v, ok := c[k]
	if !ok || v == nil {
		return nil
	}
	return v.([]interface{})
}

func (c Case) strs(k string) []string {
	var out []string
	for _, v := range c.list(k) {
		out = append(out, v.(string))
	}
	return out
}

func (c Case) ints(k string) []int {
	var out []int
	for _, v := range c.list(k) {
		n, _ := v.(json.Number).Int64()
		out = append(out, int(n))
	}
	return out
}

// li converts a float that must be a small integer (a lattice ordinate).
func li(v float64) int {
	if v != math.Trunc(v) || math.Abs(v) >= 1<<30 {
		panic(fmt.Sprintf("not a lattice ordinate: %v", v))
	}
	return int(v)
}

// scaled returns round(v*k) and panics if it does not fit TLC's integers.
func scaled(v, k float64) int {
	x := math.Round(v * k)
	if math.IsNaN(x) || math.Abs(x) >= 1<<31 {
		panic(fmt.Sprintf("scaled value out of range: %v * %v", v, k))
	}
	return int(x)
}

func bitsHex(f float64) string { return fmt.Sprintf("%016x", math.Float64bits(f)) }

func cosSin(th float64) (float64, float64) { return math.Cos(th), math.Sin(th) }

func bytesReaderOf(b []byte) *bytes.Reader { return bytes.NewReader(b) }

// genValid is Validate() == nil for use inside generators, where the library is only a filter for candidate inputs:
// a panic of the library there must not take the driver down (the candidate is dropped; the same defect is observed
// by the families that call Validate as the operation under test).
func genValid(g interface{ Validate() error }) (ok bool) {
	defer func() {
		if r := recover(); r != nil {
			ok = false
		}
	}()
	return g.Validate() == nil
}

// snapLattice wraps the inverse of a general-position map: a result ordinate within 1e-6 of an integer is that integer
// (control points of the lattice preimage come back from the float frame with an error of about 1e-13; results that
// must be control points - hull vertices, boundary points - are then exact again, anything else stays a float).
func snapLattice(inv func(geom.XY) geom.XY) func(geom.XY) geom.XY {
	if inv == nil {
		return nil
	}
	sn := func(v float64) float64 {
		if r := math.Round(v); math.Abs(v-r) < 1e-6 {
			return r
		}
		return v
	}
	return func(p geom.XY) geom.XY {
		q := inv(p)
		return geom.XY{X: sn(q.X), Y: sn(q.Y)}
	}
}
