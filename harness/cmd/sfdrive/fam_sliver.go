package main

import (
	"fmt"
	"math"
	"math/rand"

	"github.com/peterstace/simplefeatures/geom"
)

// Slivers: valid triangles (a,y0) (a+k*ulp,y0) (a,y0+h) with a = 2^e, h = 3*2^(e-2), y0 in {0, a/4},
// k in 1..3 ulps of a wide. They are valid polygons whose measures are exactly known
// (centroid (a + k*ulp/3, y0 + h/3)), and every vertex carries Z and M when the coordinate type has them.
// Used by the "measure" (C14) and "boundary" (C15) families as kind "sliver"; all values
// reported to TLC are integers in units of ulp(a) (x) and 2^(e-22) (y).

func sliverCase(r *rand.Rand) Case {
	return Case{"kind": "sliver", "e": r.Intn(21), "y0q": r.Intn(2), "k": 1 + r.Intn(3), "shape": r.Intn(3), "ct": r.Intn(4), "rot": r.Intn(3), "rev": r.Intn(2)}
}

type sliver struct {
	g           geom.Geometry
	a, ulp, y0  float64
	h, yunit    float64
	k, hUnits   int
	cyExact     float64
	description string
}

func sliverOf(c Case) sliver {
	e := c.num("e")
	a := math.Ldexp(1, e)
	ulp := math.Ldexp(1, e-52)
	y0 := 0.0
	if c.num("y0q") == 1 {
		y0 = a / 4
	}
	h := 3 * math.Ldexp(1, e-2)
	k := c.num("k")
	ct := ctypes[c.num("ct")]
	pts := []geom.XY{{X: a, Y: y0}, {X: a + float64(k)*ulp, Y: y0}, {X: a, Y: y0 + h}}
	rot := c.num("rot")
	pts = append(pts[rot:], pts[:rot]...)
	if c.num("rev") == 1 {
		pts[0], pts[2] = pts[2], pts[0]
	}
	pts = append(pts, pts[0])
	var fs []float64
	for i, p := range pts {
		fs = append(fs, p.X, p.Y)
		if ct.Is3D() {
			fs = append(fs, 7+float64(i%3))
		}
		if ct.IsMeasured() {
			fs = append(fs, 11+float64(i%3))
		}
	}
	poly := geom.NewPolygon([]geom.LineString{geom.NewLineString(geom.NewSequence(fs, ct))})
	if err := poly.Validate(); err != nil {
		panic("sliver not valid: " + err.Error())
	}
	var g geom.Geometry
	switch c.num("shape") {
	case 0:
		g = poly.AsGeometry()
	case 1:
		g = poly.AsMultiPolygon().AsGeometry()
	default:
		pt := geom.XY{X: -a, Y: -a}.AsPoint().ForceCoordinatesType(ct)
		ln := geom.NewLineString(geom.NewSequence([]float64{-a, 0, -a, a}, geom.DimXY)).ForceCoordinatesType(ct)
		g = geom.NewGeometryCollection([]geom.Geometry{pt.AsGeometry(), poly.AsGeometry(), ln.AsGeometry()}).AsGeometry()
	}
	return sliver{g: g, a: a, ulp: ulp, y0: y0, h: h, yunit: math.Ldexp(1, e-22), k: k, hUnits: 3 << 20, cyExact: y0 + math.Ldexp(1, e-2),
		description: fmt.Sprintf("%s", g.AsText())}
}

func clampUnits(v float64) int {
	v = math.Round(v)
	const lim = 1 << 28
	if !(v < lim) {
		return lim
	}
	if !(v > -lim) {
		return -lim
	}
	return int(v)
}

func finite(v float64) bool { return !math.IsNaN(v) && !math.IsInf(v, 0) }

// sliverMeasure is the "measure" event of a sliver.
func sliverMeasure(c Case) Event {
	s := sliverOf(c)
	ev := Event{"kind": "sliver", "k": s.k, "hu": s.hUnits, "wkt": s.description, "fin": false, "cempty": false, "dxu": 0, "dyu": 0, "areafin": false, "panic": ""}
	ar := s.g.Area()
	ev["areafin"] = finite(ar) && ar >= 0 && finite(s.g.Area(geom.SignedArea))
	cen := s.g.Centroid()
	xy, ok := cen.XY()
	if !ok {
		ev["cempty"] = true
		return ev
	}
	if finite(xy.X) && finite(xy.Y) {
		ev["fin"] = true
		ev["dxu"] = clampUnits((xy.X - s.a) / s.ulp)
		ev["dyu"] = clampUnits((xy.Y - s.cyExact) / s.ulp)
	}
	return ev
}

// sliverPOS is the "boundary" event of a sliver: PointOnSurface in integer units, and its coordinate type.
func sliverPOS(c Case) Event {
	s := sliverOf(c)
	ev := Event{"kind": "sliver", "k": s.k, "hu": s.hUnits, "wkt": s.description, "empty": false, "fin": false, "exact": false, "xu": 0, "yu": 0,
		"isempty": s.g.IsEmpty(), "dim": s.g.Dimension(), "panic": ""}
	pos := s.g.PointOnSurface()
	xy, ok := pos.XY()
	if !ok {
		ev["empty"] = true
		return ev
	}
	if finite(xy.X) && finite(xy.Y) {
		ev["fin"] = true
		xu, yu := (xy.X-s.a)/s.ulp, (xy.Y-s.y0)/s.yunit
		ev["exact"] = xu == math.Round(xu) && yu == math.Round(yu) && math.Abs(xu) < 1<<28 && math.Abs(yu) < 1<<28
		ev["xu"], ev["yu"] = clampUnits(xu), clampUnits(yu)
	}
	return ev
}
