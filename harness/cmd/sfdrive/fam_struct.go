package main

import (
	"fmt"
	"math/rand"
	"strconv"

	"github.com/peterstace/simplefeatures/geom"
)

// Family "struct" (C16): histories of structure-preserving operations on real values.
//
// case:  {start: tree, steps: [{act, arg}]}
// event: {start, steps: [{act, arg, got, cts, dump, coords, coordsct, xyops, panic}]}

// allCts reads the coordinate type through every accessor of g.
func allCts(g geom.Geometry) []string {
	out := []string{ctName(g.CoordinatesType())}
	add := func(ct geom.CoordinatesType) { out = append(out, ctName(ct)) }
	addLS := func(ls geom.LineString) {
		add(ls.CoordinatesType())
		add(ls.Coordinates().CoordinatesType())
		add(ls.StartPoint().CoordinatesType())
		add(ls.EndPoint().CoordinatesType())
	}
	addPoly := func(p geom.Polygon) {
		add(p.CoordinatesType())
		addLS(p.ExteriorRing())
		for i := 0; i < p.NumInteriorRings(); i++ {
			addLS(p.InteriorRingN(i))
		}
		for _, r := range p.DumpRings() {
			add(r.CoordinatesType())
		}
	}
	add(g.DumpCoordinates().CoordinatesType())
	for _, d := range g.Dump() {
		add(d.CoordinatesType())
	}
	switch g.Type() {
	case geom.TypePoint:
		p := g.MustAsPoint()
		if c, ok := p.Coordinates(); ok {
			add(c.Type)
		}
		add(p.DumpCoordinates().CoordinatesType())
		add(p.AsMultiPoint().CoordinatesType())
	case geom.TypeLineString:
		addLS(g.MustAsLineString())
		add(g.MustAsLineString().AsMultiLineString().CoordinatesType())
	case geom.TypePolygon:
		addPoly(g.MustAsPolygon())
		add(g.MustAsPolygon().AsMultiPolygon().CoordinatesType())
	case geom.TypeMultiPoint:
		mp := g.MustAsMultiPoint()
		add(mp.Coordinates().CoordinatesType())
		for i := 0; i < mp.NumPoints(); i++ {
			add(mp.PointN(i).CoordinatesType())
		}
	case geom.TypeMultiLineString:
		m := g.MustAsMultiLineString()
		for i := 0; i < m.NumLineStrings(); i++ {
			addLS(m.LineStringN(i))
		}
		for _, s := range m.Coordinates() {
			add(s.CoordinatesType())
		}
	case geom.TypeMultiPolygon:
		m := g.MustAsMultiPolygon()
		for i := 0; i < m.NumPolygons(); i++ {
			addPoly(m.PolygonN(i))
		}
	case geom.TypeGeometryCollection:
		gc := g.MustAsGeometryCollection()
		for i := 0; i < gc.NumGeometries(); i++ {
			out = append(out, allCts(gc.GeometryN(i))...)
		}
	}
	return out
}

func structStepOnPanic(act string, arg interface{}) Event {
	e := Event{"t": "Point", "ct": "XY", "c": []string{}}
	return Event{"act": act, "arg": arg, "got": e, "cts": []string{}, "dump": []Event{}, "coords": [][]string{}, "coordsct": "XY", "xyops": []string{}, "summary": "", "str": "", "nrings": 0, "ntotal": 0, "panic": ""}
}

func applyStructOp(g geom.Geometry, act string, arg T) geom.Geometry {
	switch act {
	case "force":
		return g.ForceCoordinatesType(ctOf(fmt.Sprint(arg["ct"])))
	case "force2d":
		return g.Force2D()
	case "reverse":
		return g.Reverse()
	case "swapxy":
		return g.TransformXY(func(p geom.XY) geom.XY { return geom.XY{X: p.Y, Y: p.X} })
	case "asmulti":
		switch g.Type() {
		case geom.TypePoint:
			return g.MustAsPoint().AsMultiPoint().AsGeometry()
		case geom.TypeLineString:
			return g.MustAsLineString().AsMultiLineString().AsGeometry()
		case geom.TypePolygon:
			return g.MustAsPolygon().AsMultiPolygon().AsGeometry()
		}
		return g
	case "mkgc":
		ms := append(make([]geom.Geometry, 0, 6), g, buildTree(arg))
		return ctorTwice(len(ms), func(i int) geom.Geometry { return ms[i] }, func() geom.Geometry { return geom.NewGeometryCollection(ms).AsGeometry() })
	case "mkgc1":
		return geom.NewGeometryCollection([]geom.Geometry{g}).AsGeometry()
	case "mkmulti":
		o := buildTree(arg)
		switch g.Type() {
		case geom.TypePoint:
			arg := append(make([]geom.Point, 0, 6), g.MustAsPoint(), o.MustAsPoint())
			return ctorTwice(len(arg), func(i int) geom.Geometry { return arg[i].AsGeometry() }, func() geom.Geometry { return geom.NewMultiPoint(arg).AsGeometry() })
		case geom.TypeLineString:
			arg := append(make([]geom.LineString, 0, 6), g.MustAsLineString(), o.MustAsLineString())
			return ctorTwice(len(arg), func(i int) geom.Geometry { return arg[i].AsGeometry() }, func() geom.Geometry { return geom.NewMultiLineString(arg).AsGeometry() })
		case geom.TypePolygon:
			arg := append(make([]geom.Polygon, 0, 6), g.MustAsPolygon(), o.MustAsPolygon())
			return ctorTwice(len(arg), func(i int) geom.Geometry { return arg[i].AsGeometry() }, func() geom.Geometry { return geom.NewMultiPolygon(arg).AsGeometry() })
		}
		panic("mkmulti on " + g.Type().String())
	case "nop":
		return g // the value itself is read back through every accessor (a value with a history keeps its representation)
	case "viactor":
		return viaCtor(g)
	case "geojson":
		b, err := g.MarshalJSON()
		if err != nil {
			panic(err)
		}
		r, err := geom.UnmarshalGeoJSON(b, geom.NoValidate{})
		if err != nil {
			panic(err)
		}
		return r
	case "mkpoly":
		rings := append(make([]geom.LineString, 0, 6), g.MustAsLineString(), buildTree(arg).MustAsLineString())
		return ctorTwice(len(rings), func(i int) geom.Geometry { return rings[i].AsGeometry() }, func() geom.Geometry { return geom.NewPolygon(rings).AsGeometry() })
	case "snap0":
		return g.SnapToGrid(0)
	case "densify":
		return g.Densify(1e12)
	case "wkb":
		r, err := geom.UnmarshalWKB(g.AsBinary(), geom.NoValidate{})
		if err != nil {
			panic(err)
		}
		return r
	case "wkt":
		r, err := geom.UnmarshalWKT(g.AsText(), geom.NoValidate{})
		if err != nil {
			panic(err)
		}
		return r
	case "forcecw":
		return g.ForceCW()
	case "forceccw":
		return g.ForceCCW()
	}
	panic("unknown act " + act)
}

// viaCtor rebuilds g through the convenience constructors (NewPointXYZ, NewPolygonXYM, ...) from its raw ordinates;
// the result must be the same geometry. What those constructors cannot express (an empty Point, a MultiPoint with an
// empty member) is passed through unchanged.
func viaCtor(g geom.Geometry) geom.Geometry {
	ct := g.CoordinatesType()
	fl := func(s geom.Sequence) []float64 {
		out := []float64{}
		for i := 0; i < s.Length(); i++ {
			c := s.Get(i)
			out = append(out, c.X, c.Y)
			if ct.Is3D() {
				out = append(out, c.Z)
			}
			if ct.IsMeasured() {
				out = append(out, c.M)
			}
		}
		return out
	}
	rings := func(p geom.Polygon) [][]float64 {
		out := [][]float64{}
		for _, r := range p.DumpRings() {
			out = append(out, fl(r.Coordinates()))
		}
		return out
	}
	k := 0
	switch ct {
	case geom.DimXYZ:
		k = 1
	case geom.DimXYM:
		k = 2
	case geom.DimXYZM:
		k = 3
	}
	switch g.Type() {
	case geom.TypePoint:
		c, ok := g.MustAsPoint().Coordinates()
		if !ok {
			return g
		}
		return []geom.Point{geom.NewPointXY(c.X, c.Y), geom.NewPointXYZ(c.X, c.Y, c.Z), geom.NewPointXYM(c.X, c.Y, c.M), geom.NewPointXYZM(c.X, c.Y, c.Z, c.M)}[k].AsGeometry()
	case geom.TypeLineString:
		f := fl(g.MustAsLineString().Coordinates())
		return []func(...float64) geom.LineString{geom.NewLineStringXY, geom.NewLineStringXYZ, geom.NewLineStringXYM, geom.NewLineStringXYZM}[k](f...).AsGeometry()
	case geom.TypePolygon:
		p := g.MustAsPolygon()
		if p.NumRings() == 1 {
			f := fl(p.ExteriorRing().Coordinates())
			return []func(...float64) geom.Polygon{geom.NewSingleRingPolygonXY, geom.NewSingleRingPolygonXYZ, geom.NewSingleRingPolygonXYM, geom.NewSingleRingPolygonXYZM}[k](f...).AsGeometry()
		}
		return []func(...[]float64) geom.Polygon{geom.NewPolygonXY, geom.NewPolygonXYZ, geom.NewPolygonXYM, geom.NewPolygonXYZM}[k](rings(p)...).AsGeometry()
	case geom.TypeMultiPoint:
		mp := g.MustAsMultiPoint()
		for i := 0; i < mp.NumPoints(); i++ {
			if mp.PointN(i).IsEmpty() {
				return g
			}
		}
		return []func(...float64) geom.MultiPoint{geom.NewMultiPointXY, geom.NewMultiPointXYZ, geom.NewMultiPointXYM, geom.NewMultiPointXYZM}[k](fl(mp.Coordinates())...).AsGeometry()
	case geom.TypeMultiLineString:
		m := g.MustAsMultiLineString()
		ls := [][]float64{}
		for i := 0; i < m.NumLineStrings(); i++ {
			ls = append(ls, fl(m.LineStringN(i).Coordinates()))
		}
		return []func(...[]float64) geom.MultiLineString{geom.NewMultiLineStringXY, geom.NewMultiLineStringXYZ, geom.NewMultiLineStringXYM, geom.NewMultiLineStringXYZM}[k](ls...).AsGeometry()
	case geom.TypeMultiPolygon:
		m := g.MustAsMultiPolygon()
		ps := [][][]float64{}
		for i := 0; i < m.NumPolygons(); i++ {
			ps = append(ps, rings(m.PolygonN(i)))
		}
		return []func(...[][]float64) geom.MultiPolygon{geom.NewMultiPolygonXY, geom.NewMultiPolygonXYZ, geom.NewMultiPolygonXYM, geom.NewMultiPolygonXYZM}[k](ps...).AsGeometry()
	}
	gc := g.MustAsGeometryCollection()
	if gc.NumGeometries() == 0 {
		return g
	}
	var ms []geom.Geometry
	for i := 0; i < gc.NumGeometries(); i++ {
		ms = append(ms, viaCtor(gc.GeometryN(i)))
	}
	return geom.NewGeometryCollection(ms).AsGeometry()
}

func structObserve(st Event, g geom.Geometry, setOps bool) {
	st["got"] = projectTree(g)
	st["cts"] = allCts(g)
	dump := []Event{}
	for _, d := range g.Dump() {
		dump = append(dump, projectTree(d))
	}
	st["dump"] = dump
	dc := g.DumpCoordinates()
	st["coords"], st["coordsct"] = seqToks(dc), ctName(dc.CoordinatesType())
	xy := []string{ctName(g.Centroid().CoordinatesType()), ctName(g.ConvexHull().CoordinatesType()), ctName(g.PointOnSurface().CoordinatesType()),
		ctName(g.Envelope().AsGeometry().CoordinatesType()), ctName(g.Envelope().BoundingDiagonal().CoordinatesType())}
	if setOps && g.Validate() == nil {
		if u, err := geom.Union(g, g); err == nil {
			xy = append(xy, ctName(u.CoordinatesType()))
		}
		if u, err := geom.Intersection(g, g.Envelope().AsGeometry()); err == nil {
			xy = append(xy, ctName(u.CoordinatesType()))
		}
		if u, err := geom.UnaryUnion(g); err == nil {
			xy = append(xy, ctName(u.CoordinatesType()))
		}
	}
	st["xyops"] = xy
	st["summary"], st["str"] = g.Summary(), g.String()
	st["nrings"], st["ntotal"] = 0, 0
	switch g.Type() {
	case geom.TypePolygon:
		st["nrings"] = g.MustAsPolygon().NumRings()
	case geom.TypeMultiPolygon:
		mp := g.MustAsMultiPolygon()
		n := 0
		for i := 0; i < mp.NumPolygons(); i++ {
			n += mp.PolygonN(i).NumRings()
		}
		st["nrings"] = n
	case geom.TypeGeometryCollection:
		st["ntotal"] = g.MustAsGeometryCollection().NumTotalGeometries()
	}
}

func structOnPanic(c Case) Event {
	return Event{"start": c["start"], "steps": []Event{}}
}

func structExec(c Case) Event {
	start := asTree(c["start"])
	g := buildTree(start)
	if _, ok := c["hist"]; ok {
		g = withHistory(g, c.num("hist")) // the same value with another internal representation (shared backing array, ...)
	}
	steps := []Event{}
	_, sliver := c["sliver"] // rings a few ulps wide: the overlay operations are left to C01's domain
	for _, s := range c.list("steps") {
		sm := s.(map[string]interface{})
		act := fmt.Sprint(sm["act"])
		arg, _ := sm["arg"].(map[string]interface{})
		st := structStepOnPanic(act, sm["arg"])
		func() {
			defer func() {
				if r := recover(); r != nil {
					st["panic"] = fmt.Sprint(r)
				}
			}()
			g = applyStructOp(g, act, T(arg))
			structObserve(st, g, !sliver)
		}()
		steps = append(steps, st)
		if st["panic"] != "" {
			break
		}
	}
	return Event{"start": start, "steps": steps, "nt": !g.IsEmpty(), "nevents": len(steps)}
}

// ctorTwice calls a constructor that takes a slice, with spare capacity behind the slice, and insists on what every caller
// relies on: the slice still holds what was put into it (the constructor reduces mixed coordinate types in its own
// copy), the same call again gives the same value, and the first value is not touched by the second call. A failure is
// reported like a panic of the step.
func ctorTwice(n int, elem func(i int) geom.Geometry, build func() geom.Geometry) geom.Geometry {
	dig := func(g geom.Geometry) string {
		return g.CoordinatesType().String() + ":" + g.Type().String() + ":" + string(g.AsBinary())
	}
	before := make([]string, n)
	for i := range before {
		before[i] = dig(elem(i))
	}
	r1 := build()
	d1 := dig(r1)
	for i := range before {
		if dig(elem(i)) != before[i] {
			panic("constructor rewrote element " + strconv.Itoa(i) + " of the slice it was given")
		}
	}
	if dig(build()) != d1 {
		panic("the same constructor call again gives another value")
	}
	if dig(r1) != d1 {
		panic("an earlier result changed when the constructor was called again")
	}
	return r1
}

var structActs = []string{"force", "force", "force2d", "reverse", "swapxy", "asmulti", "mkgc", "mkgc1", "mkmulti", "mkpoly", "viactor", "geojson", "snap0", "densify", "wkb", "wkt", "forcecw", "forceccw"}

func structGen(r *rand.Rand, n int, tier string, emit func(Case)) {
	for i := 0; i < n+bigExtra(n); i++ { // large sizes come last
		tg := &treeGen{r: r, finite: true, simple: true, sliver: r.Intn(6) == 0, big: i >= n}
		start := tg.tree(0, ctypes[r.Intn(4)], "")
		cur := fmt.Sprint(start["t"])
		steps := []interface{}{}
		for k, m := 0, 1+r.Intn(12); k < m; k++ {
			act := structActs[r.Intn(len(structActs))]
			if tg.sliver && act == "snap0" {
				continue // rounding to integers is not the identity on a sliver
			}
			arg := T{"ct": ""}
			switch act {
			case "force":
				arg = T{"ct": ctName(ctypes[r.Intn(4)])}
			case "mkgc":
				if cur == "GeometryCollection" && r.Intn(2) == 0 {
					continue
				}
				arg = tg.tree(1, ctypes[r.Intn(4)], "")
				cur = "GeometryCollection"
			case "mkgc1":
				cur = "GeometryCollection"
			case "mkmulti":
				if cur != "Point" && cur != "LineString" && cur != "Polygon" {
					continue
				}
				arg = tg.tree(1, ctypes[r.Intn(4)], cur)
				cur = "Multi" + cur
			case "mkpoly":
				// rings of any coordinate types; only from a non-empty LineString that no step has changed yet
				if cur != "LineString" || len(start["c"].([]interface{})) == 0 {
					continue
				}
				for {
					arg = tg.tree(1, ctypes[r.Intn(4)], "LineString")
					if len(arg["c"].([]interface{})) > 0 {
						break
					}
				}
				cur = "Polygon"
			case "asmulti":
				if cur == "Point" || cur == "LineString" || cur == "Polygon" {
					cur = "Multi" + cur
				}
			}
			steps = append(steps, T{"act": act, "arg": arg})
		}
		c := Case{"start": start, "steps": steps}
		if r.Intn(12) == 0 {
			// a collection of lines with other members between them, rebuilt as windows of one backing array: reading it
			// back (DumpCoordinates, Dump, Summary, ...) must not touch the neighbours' storage
			ct := ctypes[r.Intn(4)]
			ms := []interface{}{tg.tree(1, ct, "LineString"), tg.tree(1, ct, "Point"), tg.tree(1, ct, "LineString")}
			if r.Intn(2) == 0 {
				ms = append(ms, tg.tree(1, ct, "Polygon"))
			}
			c["start"] = T{"t": "GeometryCollection", "ct": ctName(ct), "c": ms}
			c["hist"] = 6
			safe := []string{"reverse", "swapxy", "force2d", "wkb", "wkt", "densify", "forcecw", "viactor", "mkgc1"}
			st := []interface{}{T{"act": "nop", "arg": T{"ct": ""}}, T{"act": "nop", "arg": T{"ct": ""}}}
			for k, m := 0, r.Intn(4); k < m; k++ {
				st = append(st, T{"act": safe[r.Intn(len(safe))], "arg": T{"ct": ""}})
			}
			c["steps"] = st
		} else if r.Intn(4) == 0 {
			c["hist"] = []int{6, 6, 1, 5}[r.Intn(4)]
			c["steps"] = append([]interface{}{T{"act": "nop", "arg": T{"ct": ""}}, T{"act": "nop", "arg": T{"ct": ""}}}, steps...)
		}
		if tg.sliver {
			c["sliver"] = true
		}
		emit(c)
	}
}

func init() {
	register("struct", &Family{Gen: structGen, Exec: structExec, OnPanic: structOnPanic})
}
