package main

import (
	"encoding/json"
	"fmt"
	"math"
	"math/rand"
	"reflect"
	"strings"

	"github.com/peterstace/simplefeatures/geom"
)

// Family "empty" (C20): emptiness shapes through every public method and function; transparency histories.

// ---- every public method by reflection

var (
	tGeometry = reflect.TypeOf(geom.Geometry{})
	tXYFunc   = reflect.TypeOf(func(geom.XY) geom.XY { return geom.XY{} })
	tCT       = reflect.TypeOf(geom.DimXY)
	tBytes    = reflect.TypeOf([]byte(nil))
	tEnvelope = reflect.TypeOf(geom.Envelope{})
	tXY       = reflect.TypeOf(geom.XY{})
)

// argsFor builds arguments for a method; ok=false if a parameter type is not supported.
func argsFor(mt reflect.Type, skipRecv bool, partner geom.Geometry, variant int) ([]reflect.Value, bool) {
	var args []reflect.Value
	start := 0
	if skipRecv {
		start = 1
	}
	n := mt.NumIn()
	if mt.IsVariadic() {
		n-- // pass no optional arguments
	}
	for i := start; i < n; i++ {
		pt := mt.In(i)
		switch {
		case pt == tGeometry:
			args = append(args, reflect.ValueOf(partner))
		case pt == tXYFunc:
			args = append(args, reflect.ValueOf(func(p geom.XY) geom.XY { return geom.XY{X: p.X + 1, Y: p.Y * 2} }))
		case pt == tCT:
			args = append(args, reflect.ValueOf([]geom.CoordinatesType{geom.DimXY, geom.DimXYZ, geom.DimXYM, geom.DimXYZM}[variant%4]))
		case pt == tBytes:
			args = append(args, reflect.ValueOf([]byte("x")))
		case pt == tEnvelope:
			args = append(args, reflect.ValueOf(partner.Envelope()))
		case pt == tXY:
			args = append(args, reflect.ValueOf(geom.XY{X: 1, Y: 2}))
		case pt.Kind() == reflect.Int:
			args = append(args, reflect.ValueOf([]int{0, 1, 2, -1, 5}[variant%5]))
		case pt.Kind() == reflect.Float64:
			args = append(args, reflect.ValueOf([]float64{0.5, 1, 0.25, 2, 1e-3}[variant%5]))
		case pt.Kind() == reflect.Bool:
			args = append(args, reflect.ValueOf(variant%2 == 0))
		default:
			return nil, false
		}
	}
	return args, true
}

type observable interface {
	AsText() string
	AsBinary() []byte
	IsEmpty() bool
	Envelope() geom.Envelope
	DumpCoordinates() geom.Sequence
	Summary() string
}

// callAllMethods invokes every exported method of v; returns the methods that panicked and how many were called.
func callAllMethods(v interface{}, partners []geom.Geometry) (panics []string, called int) {
	rv := reflect.ValueOf(v)
	rt := rv.Type()
	for i := 0; i < rt.NumMethod(); i++ {
		m := rt.Method(i)
		if strings.HasPrefix(m.Name, "MustAs") || m.Name == "Scan" || m.Name == "UnmarshalJSON" {
			continue // MustAs* document their panic; Scan/UnmarshalJSON need pointer receivers and are covered by C04/C06/C08
		}
		if m.Name == "PointN" || m.Name == "LineStringN" || m.Name == "PolygonN" || m.Name == "GeometryN" || m.Name == "InteriorRingN" {
			continue // index accessors: an index beyond the member count is the caller's error (ordinary Go indexing)
		}
		for vi, partner := range partners {
			args, ok := argsFor(m.Type, true, partner, vi)
			if !ok {
				break
			}
			if m.Name == "Densify" && args[0].Float() <= 0 {
				continue
			}
			func() {
				defer func() {
					if r := recover(); r != nil {
						panics = append(panics, fmt.Sprintf("%s.%s(%v): %v", rt.Name(), m.Name, partner.AsText(), r))
					}
				}()
				called++
				outs := rv.Method(i).Call(args)
				// whatever geometry a method returns is itself an ordinary geometry: it can be read back
				for _, o := range outs {
					if ob, ok := o.Interface().(observable); ok {
						_ = ob.AsText()
						_ = ob.AsBinary()
						_ = ob.IsEmpty()
						_ = ob.Envelope()
						_ = ob.DumpCoordinates()
						_ = ob.Summary()
					}
				}
			}()
			if m.Type.NumIn() == 1 {
				break // no arguments: one call is enough
			}
		}
	}
	return panics, called
}

// concreteOf returns the concrete typed value of g (Point, LineString, ...), to reach the concrete method sets too.
func concreteOf(g geom.Geometry) interface{} {
	switch g.Type() {
	case geom.TypePoint:
		return g.MustAsPoint()
	case geom.TypeLineString:
		return g.MustAsLineString()
	case geom.TypePolygon:
		return g.MustAsPolygon()
	case geom.TypeMultiPoint:
		return g.MustAsMultiPoint()
	case geom.TypeMultiLineString:
		return g.MustAsMultiLineString()
	case geom.TypeMultiPolygon:
		return g.MustAsMultiPolygon()
	}
	return g.MustAsGeometryCollection()
}

type binFn struct {
	name string
	fn   func(a, b geom.Geometry)
}

var freeFns = []binFn{
	{"Relate", func(a, b geom.Geometry) { _, _ = geom.Relate(a, b) }},
	{"Equals", func(a, b geom.Geometry) { _, _ = geom.Equals(a, b) }},
	{"Disjoint", func(a, b geom.Geometry) { _, _ = geom.Disjoint(a, b) }},
	{"Touches", func(a, b geom.Geometry) { _, _ = geom.Touches(a, b) }},
	{"Contains", func(a, b geom.Geometry) { _, _ = geom.Contains(a, b) }},
	{"Covers", func(a, b geom.Geometry) { _, _ = geom.Covers(a, b) }},
	{"Within", func(a, b geom.Geometry) { _, _ = geom.Within(a, b) }},
	{"CoveredBy", func(a, b geom.Geometry) { _, _ = geom.CoveredBy(a, b) }},
	{"Crosses", func(a, b geom.Geometry) { _, _ = geom.Crosses(a, b) }},
	{"Overlaps", func(a, b geom.Geometry) { _, _ = geom.Overlaps(a, b) }},
	{"Intersects", func(a, b geom.Geometry) { _ = geom.Intersects(a, b) }},
	{"Distance", func(a, b geom.Geometry) { _, _ = geom.Distance(a, b) }},
	{"Union", func(a, b geom.Geometry) { _, _ = geom.Union(a, b) }},
	{"Intersection", func(a, b geom.Geometry) { _, _ = geom.Intersection(a, b) }},
	{"Difference", func(a, b geom.Geometry) { _, _ = geom.Difference(a, b) }},
	{"SymmetricDifference", func(a, b geom.Geometry) { _, _ = geom.SymmetricDifference(a, b) }},
	{"ExactEquals", func(a, b geom.Geometry) { _ = geom.ExactEquals(a, b); _ = geom.ExactEquals(a, b, geom.IgnoreOrder) }},
	{"UnionMany", func(a, b geom.Geometry) { _, _ = geom.UnionMany([]geom.Geometry{a, b, a}) }},
	{"UnaryUnion", func(a, b geom.Geometry) { _, _ = geom.UnaryUnion(a) }},
	{"RotatedMinimumAreaBoundingRectangle", func(a, b geom.Geometry) { _ = geom.RotatedMinimumAreaBoundingRectangle(a) }},
	{"RotatedMinimumWidthBoundingRectangle", func(a, b geom.Geometry) { _ = geom.RotatedMinimumWidthBoundingRectangle(a) }},
	{"MarshalTWKB", func(a, b geom.Geometry) {
		_, _ = geom.MarshalTWKB(a, 2, geom.TWKBSizeHeader(), geom.TWKBBoundingBoxHeader())
	}},
	{"NewGeometryCollection", func(a, b geom.Geometry) { _ = geom.NewGeometryCollection([]geom.Geometry{a, b}).AsText() }},
	{"json.Marshal(Feature)", func(a, b geom.Geometry) { _, _ = json.Marshal(geom.GeoJSONFeature{Geometry: a}) }},
}

func callFreeFns(g geom.Geometry, partners []geom.Geometry) (panics []string, called int) {
	for _, f := range freeFns {
		for _, p := range partners {
			for _, order := range []bool{false, true} {
				a, b := g, p
				if order {
					a, b = p, g
				}
				func() {
					defer func() {
						if r := recover(); r != nil {
							panics = append(panics, fmt.Sprintf("%s(%s, %s): %v", f.name, a.AsText(), b.AsText(), r))
						}
					}()
					called++
					f.fn(a, b)
				}()
			}
		}
	}
	return panics, called
}

func emptyPartners() []geom.Geometry {
	pt := geom.XY{X: 1, Y: 1}.AsPoint().AsGeometry()
	poly := mustWKT("POLYGON((0 0,3 0,3 3,0 3,0 0))")
	mixed := mustWKT("GEOMETRYCOLLECTION(POINT EMPTY,LINESTRING(0 0,2 2),POLYGON EMPTY)")
	return []geom.Geometry{pt, poly, mixed, {}, geom.Point{}.AsGeometry(), mustWKT("MULTIPOLYGON(EMPTY)"), mustWKT("GEOMETRYCOLLECTION(GEOMETRYCOLLECTION EMPTY)")}
}

// ---- shape step

func shapeStep(tree T) Event {
	st := Event{"tree": tree, "panics": []string{}, "isempty": false, "dim": 0, "envempty": false, "area": "", "length": "", "centroidempty": false,
		"hullempty": false, "boundaryempty": false, "posempty": false, "distok": true, "distokrev": true, "relself": "", "relpt": "", "relptrev": "",
		"intersects": true, "disjoint": false, "unionwith": "", "unaryother": "", "interempty": false, "diffempty": false, "toks": []string{},
		"wkbsame": false, "jsonok": false, "valid": false, "called": 0}
	var panics []string
	func() {
		defer func() {
			if r := recover(); r != nil {
				panics = append(panics, fmt.Sprint("observation: ", r))
			}
		}()
		g := buildTree(tree)
		partners := emptyPartners()
		p1, c1 := callAllMethods(g, partners)
		p2, c2 := callAllMethods(concreteOf(g), partners)
		p3, c3 := callFreeFns(g, partners)
		panics = append(append(append(panics, p1...), p2...), p3...)
		st["called"] = c1 + c2 + c3
		pt := partners[0]
		st["isempty"], st["dim"], st["envempty"] = g.IsEmpty(), g.Dimension(), g.Envelope().IsEmpty()
		st["area"], st["length"] = bitsHex(g.Area()), bitsHex(g.Length())
		st["centroidempty"], st["hullempty"] = g.Centroid().IsEmpty(), g.ConvexHull().IsEmpty()
		st["boundaryempty"], st["posempty"] = g.Boundary().IsEmpty(), g.PointOnSurface().IsEmpty()
		_, ok := geom.Distance(g, pt)
		_, ok2 := geom.Distance(pt, g)
		st["distok"], st["distokrev"] = ok, ok2
		st["relself"], _ = geom.Relate(g, g)
		st["relpt"], _ = geom.Relate(g, pt)
		st["relptrev"], _ = geom.Relate(pt, g)
		st["intersects"] = geom.Intersects(g, pt)
		st["disjoint"], _ = geom.Disjoint(g, pt)
		other := partners[2]
		u, err := geom.Union(g, other)
		uu, err2 := geom.UnaryUnion(other)
		st["unionwith"], st["unaryother"] = u.AsText()+errStr(err), uu.AsText()+errStr(err2)
		in, err := geom.Intersection(g, other)
		st["interempty"] = err == nil && in.IsEmpty()
		df, err := geom.Difference(g, other)
		st["diffempty"] = err == nil && df.IsEmpty()
		toks, _ := wktTokens(g.AsText())
		st["toks"] = toks
		rt, err := geom.UnmarshalWKB(g.AsBinary())
		st["wkbsame"] = err == nil && geom.ExactEquals(rt, g)
		js, err := g.MarshalJSON()
		st["jsonok"] = err == nil && json.Valid(js)
		st["valid"] = g.Validate() == nil
	}()
	if panics == nil {
		panics = []string{}
	}
	st["panics"] = panics
	return st
}

// ---- zero Geometry vs empty GeometryCollection

func zeroSteps() []Event {
	z := geom.Geometry{}
	e := geom.GeometryCollection{}.AsGeometry()
	pt := geom.XY{X: 1, Y: 1}.AsPoint().AsGeometry()
	obs := func(g geom.Geometry) map[string]string {
		o := map[string]string{}
		o["AsText"] = g.AsText()
		o["AsBinary"] = fmt.Sprintf("%x", g.AsBinary())
		js, _ := g.MarshalJSON()
		o["MarshalJSON"] = string(js)
		o["Type"] = g.Type().String()
		o["IsEmpty"] = fmt.Sprint(g.IsEmpty())
		o["Dimension"] = fmt.Sprint(g.Dimension())
		o["CoordinatesType"] = g.CoordinatesType().String()
		o["Envelope"] = g.Envelope().String()
		o["Boundary"] = g.Boundary().AsText()
		o["ConvexHull"] = g.ConvexHull().AsText()
		o["Centroid"] = g.Centroid().AsText()
		o["Reverse"] = g.Reverse().AsText()
		o["ForceXYZ"] = g.ForceCoordinatesType(geom.DimXYZ).AsText()
		r1, _ := geom.Relate(g, pt)
		r2, _ := geom.Relate(pt, g)
		o["Relate"] = r1 + "/" + r2
		u, _ := geom.Union(g, pt)
		o["Union"] = u.AsText()
		_, ok := geom.Distance(g, pt)
		o["Distance"] = fmt.Sprint(ok)
		o["ExactEquals"] = fmt.Sprint(geom.ExactEquals(g, geom.GeometryCollection{}.AsGeometry()), geom.ExactEquals(geom.Geometry{}, g))
		o["Validate"] = fmt.Sprint(g.Validate())
		o["Dump"] = fmt.Sprint(len(g.Dump()))
		o["AppendWKT"] = string(g.AppendWKT([]byte("p:")))
		tw, err := geom.MarshalTWKB(g, 0)
		o["TWKB"] = fmt.Sprintf("%x %v", tw, err)
		return o
	}
	var steps []Event
	var oz, oe map[string]string
	var panics []string
	func() {
		defer func() {
			if r := recover(); r != nil {
				panics = append(panics, fmt.Sprint(r))
			}
		}()
		oz, oe = obs(z), obs(e)
	}()
	if len(panics) > 0 {
		return []Event{{"what": "observation", "zero": "", "emptygc": "", "panics": panics}}
	}
	for k := range oz {
		steps = append(steps, Event{"what": k, "zero": oz[k], "emptygc": oe[k], "panics": []string{}})
	}
	pz, _ := callAllMethods(z, emptyPartners())
	pf, _ := callFreeFns(z, emptyPartners())
	all := append(pz, pf...)
	if all == nil {
		all = []string{}
	}
	steps = append(steps, Event{"what": "all-methods", "zero": "", "emptygc": "", "panics": all})
	return steps
}

// ---- transparency histories

var obsNames = []string{"IsEmpty", "Envelope", "Area", "Length", "Centroid", "ConvexHull", "Relate(g,h)", "Relate(h,g)", "Equals", "Disjoint", "Touches",
	"Contains", "Covers", "Within", "CoveredBy", "Crosses", "Overlaps", "Intersects", "Distance", "Union", "Intersection", "Difference(g,h)",
	"Difference(h,g)", "SymmetricDifference", "UnaryUnion"}

type obsState struct {
	init     bool
	first    []geom.Geometry // set-operation results of the first observation
	firstTxt []string
}

func (s *obsState) observe(g, h geom.Geometry) []string {
	hull := g.ConvexHull().AsText()
	if g.ConvexHull().IsEmpty() {
		hull = "EMPTY" // the hull is compared as a point set: which empty geometry type is returned is immaterial
	}
	o := []string{fmt.Sprint(g.IsEmpty()), g.Envelope().String(), bitsHex(g.Area()), bitsHex(g.Length()), g.Centroid().AsText(), hull}
	r1, _ := geom.Relate(g, h)
	r2, _ := geom.Relate(h, g)
	o = append(o, r1, r2)
	for _, fn := range predFns[:9] {
		v, err := fn(g, h)
		o = append(o, fmt.Sprint(v, errStr(err)))
	}
	o = append(o, fmt.Sprint(geom.Intersects(g, h)))
	d, ok := geom.Distance(g, h)
	o = append(o, fmt.Sprint(ok, bitsHex(d)))
	ops := []func() (geom.Geometry, error){
		func() (geom.Geometry, error) { return geom.Union(g, h) },
		func() (geom.Geometry, error) { return geom.Intersection(g, h) },
		func() (geom.Geometry, error) { return geom.Difference(g, h) },
		func() (geom.Geometry, error) { return geom.Difference(h, g) },
		func() (geom.Geometry, error) { return geom.SymmetricDifference(g, h) },
		func() (geom.Geometry, error) { return geom.UnaryUnion(g) },
	}
	for k, op := range ops {
		res, err := op()
		txt := ""
		if err != nil {
			txt = "error:" + errStr(err)
		} else {
			txt = res.AsText()
		}
		if !s.init {
			s.first, s.firstTxt = append(s.first, res), append(s.firstTxt, txt)
		} else if err == nil && !strings.HasPrefix(s.firstTxt[k], "error:") {
			// the same point set as in the first observation counts as unchanged (vertex lists may differ)
			if eq, e2 := geom.Equals(res, s.first[k]); e2 == nil && eq {
				txt = s.firstTxt[k]
			}
		}
		o = append(o, txt)
	}
	s.init = true
	return o
}

// members: the current value as a typed list of members
type memberList struct {
	kind string // "gc", "mpt", "mls", "mpg"
	ms   []geom.Geometry
}

func toMembers(g geom.Geometry) memberList {
	switch g.Type() {
	case geom.TypeMultiPoint:
		ml := memberList{kind: "mpt"}
		mp := g.MustAsMultiPoint()
		for i := 0; i < mp.NumPoints(); i++ {
			ml.ms = append(ml.ms, mp.PointN(i).AsGeometry())
		}
		return ml
	case geom.TypeMultiLineString:
		ml := memberList{kind: "mls"}
		m := g.MustAsMultiLineString()
		for i := 0; i < m.NumLineStrings(); i++ {
			ml.ms = append(ml.ms, m.LineStringN(i).AsGeometry())
		}
		return ml
	case geom.TypeMultiPolygon:
		ml := memberList{kind: "mpg"}
		m := g.MustAsMultiPolygon()
		for i := 0; i < m.NumPolygons(); i++ {
			ml.ms = append(ml.ms, m.PolygonN(i).AsGeometry())
		}
		return ml
	case geom.TypeGeometryCollection:
		ml := memberList{kind: "gc"}
		gc := g.MustAsGeometryCollection()
		for i := 0; i < gc.NumGeometries(); i++ {
			ml.ms = append(ml.ms, gc.GeometryN(i))
		}
		return ml
	}
	return memberList{kind: "gc", ms: []geom.Geometry{g}}
}

func (m memberList) build() geom.Geometry {
	switch m.kind {
	case "mpt":
		var ps []geom.Point
		for _, x := range m.ms {
			ps = append(ps, x.MustAsPoint())
		}
		return ctorTwice(len(ps), func(i int) geom.Geometry { return ps[i].AsGeometry() }, func() geom.Geometry { return geom.NewMultiPoint(ps).AsGeometry() })
	case "mls":
		var ps []geom.LineString
		for _, x := range m.ms {
			ps = append(ps, x.MustAsLineString())
		}
		return ctorTwice(len(ps), func(i int) geom.Geometry { return ps[i].AsGeometry() }, func() geom.Geometry { return geom.NewMultiLineString(ps).AsGeometry() })
	case "mpg":
		var ps []geom.Polygon
		for _, x := range m.ms {
			ps = append(ps, x.MustAsPolygon())
		}
		return ctorTwice(len(ps), func(i int) geom.Geometry { return ps[i].AsGeometry() }, func() geom.Geometry { return geom.NewMultiPolygon(ps).AsGeometry() })
	}
	ms := m.ms
	return ctorTwice(len(ms), func(i int) geom.Geometry { return ms[i] }, func() geom.Geometry { return geom.NewGeometryCollection(ms).AsGeometry() })
}

func (m memberList) emptyMember(t int) geom.Geometry {
	switch m.kind {
	case "mpt":
		return geom.Point{}.AsGeometry()
	case "mls":
		return geom.LineString{}.AsGeometry()
	case "mpg":
		return geom.Polygon{}.AsGeometry()
	}
	es := []geom.Geometry{geom.Point{}.AsGeometry(), geom.LineString{}.AsGeometry(), geom.Polygon{}.AsGeometry(), geom.MultiPoint{}.AsGeometry(),
		geom.MultiLineString{}.AsGeometry(), geom.MultiPolygon{}.AsGeometry(), geom.GeometryCollection{}.AsGeometry(),
		mustWKT("GEOMETRYCOLLECTION(POLYGON EMPTY,GEOMETRYCOLLECTION(POINT EMPTY))"), mustWKT("MULTIPOLYGON(EMPTY,EMPTY)")}
	return es[t%len(es)]
}

func histSteps(c Case) []Event {
	g0, h := mustWKT(c.str("w")), mustWKT(c.str("other"))
	ml := toMembers(g0)
	// nest: the value under observation is the member list wrapped once or twice into a GeometryCollection, so that the
	// inserted empty members sit inside a nested collection next to non-empty ones
	nest := 0
	if _, ok := c["nest"]; ok {
		nest = c.num("nest")
	}
	build := func() geom.Geometry {
		g := ml.build()
		for k := 0; k < nest; k++ {
			g = geom.NewGeometryCollection([]geom.Geometry{g}).AsGeometry()
		}
		return g
	}
	st := &obsState{}
	var steps []Event
	record := func(act string, g geom.Geometry) bool {
		ev := Event{"act": act, "obs": []string{}, "names": obsNames, "panic": ""}
		func() {
			defer func() {
				if r := recover(); r != nil {
					ev["panic"] = fmt.Sprint(r)
				}
			}()
			ev["obs"] = st.observe(g, h)
		}()
		steps = append(steps, ev)
		return ev["panic"] == ""
	}
	if !record("start", build()) {
		return steps
	}
	var inserted []int // positions of inserted empties (for removal)
	for _, o := range c.list("ops") {
		op := o.([]interface{})
		kind, pos, t := int(jnum(op[0])), int(jnum(op[1])), int(jnum(op[2]))
		if kind == 0 || len(inserted) == 0 {
			p := pos % (len(ml.ms) + 1)
			e := ml.emptyMember(t)
			ml.ms = append(ml.ms[:p], append([]geom.Geometry{e}, ml.ms[p:]...)...)
			for i := range inserted {
				if inserted[i] >= p {
					inserted[i]++
				}
			}
			inserted = append(inserted, p)
			if !record(fmt.Sprintf("InsertEmpty(%d,%s)", p, e.AsText()), build()) {
				break
			}
		} else {
			k := pos % len(inserted)
			p := inserted[k]
			ml.ms = append(ml.ms[:p], ml.ms[p+1:]...)
			inserted = append(inserted[:k], inserted[k+1:]...)
			for i := range inserted {
				if inserted[i] > p {
					inserted[i]--
				}
			}
			if !record(fmt.Sprintf("RemoveEmpty(%d)", p), build()) {
				break
			}
		}
	}
	// last step: every public method and function on the final value (empty members inserted at the recorded positions),
	// in the coordinate type the case asks for; whatever they return is read back. The observation is unchanged by
	// definition - only a panic makes this step a mismatch.
	if len(steps) > 0 && steps[len(steps)-1]["panic"] == "" {
		ct := ctypes[0]
		if _, ok := c["ct"]; ok {
			ct = ctypes[c.num("ct")%4]
		}
		g := build().ForceCoordinatesType(ct)
		ev := Event{"act": "Sweep(" + ct.String() + "," + g.AsText() + ")", "obs": steps[0]["obs"], "names": obsNames, "panic": ""}
		func() {
			defer func() {
				if r := recover(); r != nil {
					ev["panic"] = fmt.Sprint(r)
				}
			}()
			partners := emptyPartners()[:3]
			p1, _ := callAllMethods(g, partners)
			p2, _ := callAllMethods(concreteOf(g), partners)
			if all := append(p1, p2...); len(all) > 0 {
				ev["panic"] = all[0]
			}
		}()
		steps = append(steps, ev)
	}
	return steps
}

func emptyGen(r *rand.Rand, n int, tier string, emit func(Case)) {
	emit(Case{"kind": "zero"})
	for i := 0; i < n+bigExtra(n)/2; i++ {
		l := &lgen{r: r, N: 3 + r.Intn(4)}
		g := l.leafOfType(3 + r.Intn(3))
		sel := r.Intn(3)
		if i >= n { // large sizes come last: many members, members of many vertices
			l, sel = bigLatticeTo(r, 12, 16), 2+r.Intn(2)
		}
		switch sel {
		case 0:
			g = l.collection(0)
		case 1:
			g = l.leafOfType(r.Intn(3)) // wrapped into a collection
		case 2:
			g = l.bigLeaf(3 + r.Intn(3))
		case 3:
			g = l.bigCollection()
		}
		ops := []interface{}{}
		for k, m := 0, 1+r.Intn(5); k < m; k++ {
			ops = append(ops, []interface{}{r.Intn(3) / 2, r.Intn(8), r.Intn(9)})
		}
		c := Case{"kind": "hist", "w": g.AsText(), "other": l.any(6).AsText(), "ops": ops, "nest": []int{0, 0, 1, 2}[r.Intn(4)], "ct": r.Intn(4)}
		if r.Intn(6) == 0 {
			c["other"] = []string{"POINT EMPTY", "GEOMETRYCOLLECTION EMPTY", "GEOMETRYCOLLECTION(POLYGON EMPTY)", "LINESTRING EMPTY"}[r.Intn(4)]
		}
		switch r.Intn(8) {
		case 0: // the partner is a polygon that contains the whole value strictly (no boundary contact: the fallback paths)
			c["other"] = fmt.Sprintf("POLYGON((-1 -1,%d -1,%d %d,-1 %d,-1 -1))", l.N+1, l.N+1, l.N+1, l.N+1)
		case 1: // ... or a MultiPolygon / collection of such
			c["other"] = fmt.Sprintf("GEOMETRYCOLLECTION(MULTIPOLYGON(((-1 -1,%d -1,%d %d,-1 %d,-1 -1))),POINT(-5 -5))", l.N+1, l.N+1, l.N+1, l.N+1)
		case 2: // the value is a big polygon (as a MultiPolygon, so that it has members) and the partner lies strictly inside it
			c["w"] = fmt.Sprintf("MULTIPOLYGON(((-1 -1,%d -1,%d %d,-1 %d,-1 -1)))", l.N+1, l.N+1, l.N+1, l.N+1)
		}
		emit(c)
	}
}

func emptyOnPanic(c Case) Event { return Event{"kind": c.str("kind"), "steps": []Event{}} }

func emptyExec(c Case) Event {
	ev := Event{"kind": c.str("kind")}
	switch c.str("kind") {
	case "shape":
		ev["steps"] = []Event{shapeStep(asTree(c["tree"]))}
	case "zero":
		ev["steps"] = zeroSteps()
	default:
		ev["steps"] = histSteps(c)
	}
	ev["nevents"] = len(ev["steps"].([]Event))
	_ = math.Pi
	return ev
}

func init() {
	register("empty", &Family{Gen: emptyGen, Exec: emptyExec, OnPanic: emptyOnPanic})
}
