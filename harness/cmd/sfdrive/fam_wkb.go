package main

import (
	"bytes"
	"math/rand"

	"github.com/peterstace/simplefeatures/geom"
)

// Family "wkb" (C04).

func wkbGen(r *rand.Rand, n int, tier string, emit func(Case)) {
	for i := 0; i < n; i++ {
		tg := &treeGen{r: r, simple: i%3 == 2}
		kind := ""
		if i < 28 {
			kind = typeNames[i%7]
		}
		emit(Case{"kind": "enc", "tree": tg.tree(0, ctypes[(i/7)%4], kind)})
	}
}

func wkbOnPanic(c Case) Event {
	e := Event{"t": "Point", "ct": "XY", "c": []string{}}
	return Event{"kind": c.str("kind"), "g": e, "bytes": []int{}, "dec": e, "decerr": "", "reenc": false, "append": false,
		"trail": false, "value": false, "valid": false, "scan": []bool{}, "scansame": false}
}

func scanInto(i int, b []byte) (geom.Geometry, error) {
	switch i {
	case 0:
		var v geom.Point
		err := v.Scan(b)
		return v.AsGeometry(), err
	case 1:
		var v geom.LineString
		err := v.Scan(b)
		return v.AsGeometry(), err
	case 2:
		var v geom.Polygon
		err := v.Scan(b)
		return v.AsGeometry(), err
	case 3:
		var v geom.MultiPoint
		err := v.Scan(b)
		return v.AsGeometry(), err
	case 4:
		var v geom.MultiLineString
		err := v.Scan(b)
		return v.AsGeometry(), err
	case 5:
		var v geom.MultiPolygon
		err := v.Scan(b)
		return v.AsGeometry(), err
	case 6:
		var v geom.GeometryCollection
		err := v.Scan(b)
		return v.AsGeometry(), err
	}
	var v geom.Geometry
	err := v.Scan(b)
	return v, err
}

func wkbExec(c Case) Event {
	ev := wkbOnPanic(c)
	if c.str("kind") == "dec" {
		var bs []byte
		for _, b := range c.ints("bytes") {
			bs = append(bs, byte(b))
		}
		ev["bytes"] = bytesInts(bs)
		g, err := geom.UnmarshalWKB(bs, geom.NoValidate{})
		if err != nil {
			ev["decerr"] = errStr(err)
			return ev
		}
		ev["dec"] = projectTree(g)
		g2, err := geom.UnmarshalWKB(g.AsBinary(), geom.NoValidate{})
		ev["reenc"] = err == nil && bytes.Equal(g2.AsBinary(), g.AsBinary())
		return ev
	}
	tree := asTree(c["tree"])
	g := buildTree(tree)
	ev["g"] = tree
	bs := g.AsBinary()
	ev["bytes"] = bytesInts(bs)
	dg, err := geom.UnmarshalWKB(bs, geom.NoValidate{})
	if err != nil {
		ev["decerr"] = errStr(err)
		return ev
	}
	ev["dec"] = projectTree(dg)
	ev["reenc"] = bytes.Equal(dg.AsBinary(), bs)
	prefix := []byte("prefix\x00\x01")
	ev["append"] = bytes.Equal(g.AppendWKB(append([]byte{}, prefix...)), append(append([]byte{}, prefix...), bs...))
	tg, err := geom.UnmarshalWKB(append(append([]byte{}, bs...), 0xde, 0xad, 0x00, 0x01, 0x02), geom.NoValidate{})
	ev["trail"] = err == nil && bytes.Equal(tg.AsBinary(), bs)
	val, err := g.Value()
	vb, _ := val.([]byte)
	ev["value"] = err == nil && bytes.Equal(vb, bs)
	scan := make([]bool, 8)
	same := true
	for i := range scan {
		sg, err := scanInto(i, bs)
		scan[i] = err == nil
		if err == nil && !bytes.Equal(sg.AsBinary(), bs) {
			same = false
		}
	}
	ev["scan"], ev["scansame"] = scan, same
	ev["valid"] = g.Validate() == nil
	ev["nt"] = !g.IsEmpty()
	return ev
}

func init() {
	register("wkb", &Family{Gen: wkbGen, Exec: wkbExec, OnPanic: wkbOnPanic})
}
