package main

import (
	"bytes"
	"math/rand"

	"github.com/peterstace/simplefeatures/geom"
)

// Family "wkb" (C04).

func wkbGen(r *rand.Rand, n int, tier string, emit func(Case)) {
	for i := 0; i < n+bigExtra(n); i++ { // large sizes come last
		tg := &treeGen{r: r, simple: i%3 == 2, short: i%3 == 1, big: i >= n}
		kind := ""
		if i < 28 {
			kind = typeNames[i%7]
		}
		emit(Case{"kind": "enc", "tree": tg.tree(0, ctypes[(i/7)%4], kind)})
	}
}

// reorderWKB rewrites little-endian WKB (as the library writes it on this machine) with a byte order chosen per
// element by pick().  It is an independent walk of the format; the specification's reader checks its output.
func reorderWKB(b []byte, pick func() bool) []byte {
	out := []byte{}
	pos := 0
	u32 := func() uint32 {
		v := uint32(b[pos]) | uint32(b[pos+1])<<8 | uint32(b[pos+2])<<16 | uint32(b[pos+3])<<24
		pos += 4
		return v
	}
	put32 := func(v uint32, le bool) {
		if le {
			out = append(out, byte(v), byte(v>>8), byte(v>>16), byte(v>>24))
		} else {
			out = append(out, byte(v>>24), byte(v>>16), byte(v>>8), byte(v))
		}
	}
	put64 := func(le bool) {
		for i := 0; i < 8; i++ {
			if le {
				out = append(out, b[pos+i])
			} else {
				out = append(out, b[pos+7-i])
			}
		}
		pos += 8
	}
	var elem func()
	elem = func() {
		if b[pos] != 1 {
			panic("reorderWKB: input is not little endian")
		}
		pos++
		le := pick()
		if le {
			out = append(out, 1)
		} else {
			out = append(out, 0)
		}
		code := u32()
		put32(code, le)
		dim := map[uint32]int{0: 2, 1: 3, 2: 3, 3: 4}[code/1000]
		seq := func() {
			n := u32()
			put32(n, le)
			for i := 0; i < int(n)*dim; i++ {
				put64(le)
			}
		}
		switch code % 1000 {
		case 1:
			for i := 0; i < dim; i++ {
				put64(le)
			}
		case 2:
			seq()
		case 3:
			n := u32()
			put32(n, le)
			for i := 0; i < int(n); i++ {
				seq()
			}
		default:
			n := u32()
			put32(n, le)
			for i := 0; i < int(n); i++ {
				elem()
			}
		}
	}
	elem()
	return out
}

func wkbOnPanic(c Case) Event {
	e := Event{"t": "Point", "ct": "XY", "c": []string{}}
	return Event{"kind": c.str("kind"), "g": e, "bytes": []int{}, "bytes2": []int{}, "dec2": e, "dec2err": "", "dec": e, "decerr": "", "valerr": "", "reenc": false, "append": false,
		"trail": false, "value": false, "valid": false, "scan": []bool{}, "scansame": false, "null": []bool{}, "stable": true}
}

func scanInto(i int, b []byte) (geom.Geometry, error) {
	switch i {
	case 0:
		var v geom.Point
		err := v.Scan(b)
		return v.AsGeometry(), err
	case 1:
		var v geom.LineString
		err := v.Scan(b)
		return v.AsGeometry(), err
	case 2:
		var v geom.Polygon
		err := v.Scan(b)
		return v.AsGeometry(), err
	case 3:
		var v geom.MultiPoint
		err := v.Scan(b)
		return v.AsGeometry(), err
	case 4:
		var v geom.MultiLineString
		err := v.Scan(b)
		return v.AsGeometry(), err
	case 5:
		var v geom.MultiPolygon
		err := v.Scan(b)
		return v.AsGeometry(), err
	case 6:
		var v geom.GeometryCollection
		err := v.Scan(b)
		return v.AsGeometry(), err
	}
	var v geom.Geometry
	err := v.Scan(b)
	return v, err
}

func wkbExec(c Case) Event {
	ev := wkbOnPanic(c)
	if c.str("kind") == "dec" {
		var bs []byte
		for _, b := range c.ints("bytes") {
			bs = append(bs, byte(b))
		}
		ev["bytes"] = bytesInts(bs)
		g, err := geom.UnmarshalWKB(bs, geom.NoValidate{})
		if err != nil {
			ev["decerr"] = errStr(err)
			return ev
		}
		ev["dec"] = projectTree(g)
		g2, err := geom.UnmarshalWKB(g.AsBinary(), geom.NoValidate{})
		ev["reenc"] = err == nil && bytes.Equal(g2.AsBinary(), g.AsBinary())
		return ev
	}
	tree := asTree(c["tree"])
	g := buildTree(tree)
	ev["g"] = tree
	bs := g.AsBinary()
	ev["bytes"] = bytesInts(bs)
	keep := append([]byte(nil), bs...)
	// a result belongs to the caller: whatever is called afterwards (below) must leave it alone
	defer func() { ev["stable"] = bytes.Equal(bs, keep) }()
	dg, err := geom.UnmarshalWKB(bs, geom.NoValidate{})
	if err != nil {
		ev["decerr"] = errStr(err)
		return ev
	}
	ev["dec"] = projectTree(dg)
	if _, verr := geom.UnmarshalWKB(bs); verr != nil {
		ev["valerr"] = errStr(verr) // the validating reader (the default)
	}
	pr := rand.New(rand.NewSource(int64(len(bs))*7919 + int64(bs[len(bs)-1])))
	mode := pr.Intn(3) // all big endian, or mixed per element
	bs2 := reorderWKB(bs, func() bool { return mode != 0 && pr.Intn(2) == 0 })
	ev["bytes2"] = bytesInts(bs2)
	if dg2, err := geom.UnmarshalWKB(bs2, geom.NoValidate{}); err != nil {
		ev["dec2err"] = errStr(err)
	} else {
		ev["dec2"] = projectTree(dg2)
	}
	ev["reenc"] = bytes.Equal(dg.AsBinary(), bs)
	prefix := []byte("prefix\x00\x01")
	ev["append"] = bytes.Equal(g.AppendWKB(append([]byte{}, prefix...)), append(append([]byte{}, prefix...), bs...))
	tg, err := geom.UnmarshalWKB(append(append([]byte{}, bs...), 0xde, 0xad, 0x00, 0x01, 0x02), geom.NoValidate{})
	ev["trail"] = err == nil && bytes.Equal(tg.AsBinary(), bs)
	val, err := g.Value()
	vb, _ := val.([]byte)
	ev["value"] = err == nil && bytes.Equal(vb, bs)
	scan := make([]bool, 8)
	same := true
	for i := range scan {
		sg, err := scanInto(i, bs)
		scan[i] = err == nil
		if err == nil && !bytes.Equal(sg.AsBinary(), bs) {
			same = false
		}
	}
	ev["scan"], ev["scansame"] = scan, same
	// NullGeometry: Scan(nil) gives the invalid (NULL) value, whose Value() is nil; Scan(bytes) behaves like Geometry.Scan
	// and gives a valid value whose Value() is the same bytes
	var ng geom.NullGeometry
	e1 := ng.Scan(nil)
	nv, e2 := ng.Value()
	var ng2 geom.NullGeometry
	e3 := ng2.Scan(bs)
	nv2, e4 := ng2.Value()
	nb2, _ := nv2.([]byte)
	ev["null"] = []bool{e1 == nil && !ng.Valid, e2 == nil && nv == nil, (e3 == nil) == scan[7], e3 != nil || (ng2.Valid && e4 == nil && bytes.Equal(nb2, bs))}
	ev["valid"] = g.Validate() == nil
	ev["nt"] = !g.IsEmpty()
	return ev
}

func init() {
	register("wkb", &Family{Gen: wkbGen, Exec: wkbExec, OnPanic: wkbOnPanic})
}
