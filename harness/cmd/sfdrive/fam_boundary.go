package main

import (
	"math"
	"math/rand"

	"github.com/peterstace/simplefeatures/geom"
)

// Family "boundary" (C15): Boundary, PointOnSurface, Dimension, IsEmpty.

func typeTree(g geom.Geometry) Event {
	t := Event{"t": g.Type().String(), "c": []Event{}}
	if g.IsGeometryCollection() {
		gc := g.MustAsGeometryCollection()
		cs := []Event{}
		for i := 0; i < gc.NumGeometries(); i++ {
			cs = append(cs, typeTree(gc.GeometryN(i)))
		}
		t["c"] = cs
	}
	return t
}

// spiky / concave polygons whose envelope centre is outside or on a vertex row
func (l *lgen) concavePolygon() geom.Polygon {
	for {
		n := l.N
		var pts []geom.XY
		switch l.r.Intn(5) {
		case 3: // comb: three or four teeth on a bar; the row through the middle of the envelope meets every tooth, and
			// the gaps between the teeth are wider than the teeth (6 or 8 crossings, the widest stretch is outside)
			if n < 9 {
				continue
			}
			teeth := 3
			if n >= 13 && l.r.Intn(2) == 0 {
				teeth = 4
			}
			h := float64(3 + l.r.Intn(n-2))
			x := 0.0
			pts = []geom.XY{{X: 0, Y: 0}}
			var top []geom.XY
			for t := 0; t < teeth; t++ {
				w := 1.0
				g := float64(2 + l.r.Intn(2))
				top = append(top, geom.XY{X: x, Y: h}, geom.XY{X: x + w, Y: h})
				if t < teeth-1 {
					top = append(top, geom.XY{X: x + w, Y: 1}, geom.XY{X: x + w + g, Y: 1})
				}
				x += w + g
				if t == teeth-1 {
					x -= g
				}
			}
			if x > float64(n) {
				continue
			}
			pts = append(pts, geom.XY{X: x, Y: 0})
			for i := len(top) - 1; i >= 0; i-- {
				pts = append(pts, top[i])
			}
		case 4: // a slab with two or three wide holes side by side on the middle row, thin walls between them
			if n < 9 {
				continue
			}
			holes := 2
			if n >= 12 && l.r.Intn(2) == 0 {
				holes = 3
			}
			wv := float64(2 + l.r.Intn(2))
			width := 1 + float64(holes)*(wv+1)
			if width > float64(n) {
				continue
			}
			ht := float64(4 + 2*l.r.Intn(2))
			rings := []geom.LineString{geom.NewLineString(seqOf([]geom.XY{{X: 0, Y: 0}, {X: width, Y: 0}, {X: width, Y: ht}, {X: 0, Y: ht}, {X: 0, Y: 0}}))}
			for k := 0; k < holes; k++ {
				x0 := 1 + float64(k)*(wv+1)
				rings = append(rings, geom.NewLineString(seqOf([]geom.XY{{X: x0, Y: 1}, {X: x0, Y: ht - 1}, {X: x0 + wv, Y: ht - 1}, {X: x0 + wv, Y: 1}, {X: x0, Y: 1}})))
			}
			p := geom.NewPolygon(rings)
			if genValid(p) {
				return p
			}
			continue
		case 0: // U shape
			w := 1 + l.r.Intn(maxI(1, n/3))
			pts = []geom.XY{{X: 0, Y: 0}, {X: float64(n), Y: 0}, {X: float64(n), Y: float64(n)}, {X: float64(n - w), Y: float64(n)},
				{X: float64(n - w), Y: float64(w)}, {X: float64(w), Y: float64(w)}, {X: float64(w), Y: float64(n)}, {X: 0, Y: float64(n)}}
		case 1: // comb with vertices on the centre row
			h := float64(n / 2)
			pts = []geom.XY{{X: 0, Y: 0}, {X: float64(n), Y: 0}, {X: float64(n), Y: float64(n)}, {X: float64(n) / 2, Y: h}, {X: 0, Y: float64(n)}}
			if float64(int(float64(n)/2)) != float64(n)/2 {
				continue
			}
		default: // thin sliver
			a, b := l.pt(), l.pt()
			c := geom.XY{X: b.X, Y: b.Y + 1}
			pts = []geom.XY{a, b, c}
		}
		pts = append(pts, pts[0])
		p := geom.NewPolygon([]geom.LineString{geom.NewLineString(seqOf(pts))})
		if genValid(p) {
			return p
		}
	}
}

func maxI(a, b int) int {
	if a > b {
		return a
	}
	return b
}

// multilinestrings whose members share end points 2, 3, 4 ways
func (l *lgen) starLines() geom.MultiLineString {
	hub := l.pt()
	var ls []geom.LineString
	for i, k := 0, 2+l.r.Intn(4); i < k; i++ {
		for {
			o := l.pt()
			if o != hub {
				pts := []geom.XY{hub, o}
				if l.r.Intn(2) == 0 {
					pts = []geom.XY{o, hub}
				}
				if l.r.Intn(3) == 0 {
					pts = append(pts, l.pt())
				}
				cand := geom.NewLineString(seqOf(pts))
				if genValid(cand) {
					ls = append(ls, cand)
					break
				}
			}
		}
	}
	return geom.NewMultiLineString(ls)
}

// emptyTree is the nesting structure of a geometry with an emptiness flag per node.
func emptyTree(g geom.Geometry) Event {
	t := Event{"t": g.Type().String(), "e": g.IsEmpty(), "c": []Event{}}
	if g.IsGeometryCollection() {
		gc := g.MustAsGeometryCollection()
		cs := []Event{}
		for i := 0; i < gc.NumGeometries(); i++ {
			cs = append(cs, emptyTree(gc.GeometryN(i)))
		}
		t["c"] = cs
	}
	return t
}

func boundaryGen(r *rand.Rand, n int, tier string, emit func(Case)) {
	for i := 0; i < n+bigExtra(n); i++ {
		big := i >= n // large sizes come last
		if !big && r.Intn(12) == 0 {
			emit(sliverCase(r))
			continue
		}
		l := &lgen{r: r, N: 3 + r.Intn(6)}
		if r.Intn(5) == 0 {
			l.N = 9 + r.Intn(8)
		}
		var g geom.Geometry
		sel := r.Intn(8)
		if big {
			l, sel = bigLatticeTo(r, 12, 16), -1 // point location works with the sixth power of the side (DESIGN 4.4)
		}
		switch sel {
		case -1:
			if r.Intn(3) == 0 {
				g = l.bigPolygon().AsGeometry() // many holes, or rings of many vertices: where a point on the surface is hardest to place
			} else {
				g = l.bigAny()
			}
		case 0, 2:
			if r.Intn(2) == 0 {
				l.N = 9 + r.Intn(8)
			}
			g = l.concavePolygon().AsGeometry()
		case 1:
			g = l.starLines().AsGeometry()
		case 3:
			g = l.nestedEmptyHigher()
		default:
			g = l.any(4)
		}
		mk := 0
		switch r.Intn(8) {
		case 0, 1:
			mk = 1
		case 2:
			mk = 2 // general-position float image
		case 3:
			mk = 3 + r.Intn(2)
		}
		c := pairCase(l, g, geom.Geometry{}, mk)
		delete(c, "wb")
		emit(c)
	}
}

func boundaryOnPanic(c Case) Event {
	if _, ok := c["kind"]; ok {
		return Event{"kind": "sliver", "k": 1, "hu": 1, "wkt": "", "empty": false, "fin": false, "exact": false, "xu": 0, "yu": 0, "isempty": false, "dim": 2}
	}
	return Event{"g": []*flat{}, "tree": Event{"t": "Point", "c": []Event{}}, "dim": 0, "isempty": false, "bnd": []*flat{}, "bbempty": false, "btree": Event{"t": "Point", "e": true, "c": []Event{}},
		"pos": Event{"empty": true, "q": []int{0, 0}, "exact": false}}
}

func boundaryExec(c Case) Event {
	if _, ok := c["kind"]; ok {
		return sliverPOS(c)
	}
	ev := boundaryOnPanic(c)
	g0 := mustWKT(c.str("wa"))
	f, gp := mapOf(c)
	inv := invOf(c)
	if gp {
		inv = snapLattice(inv) // boundary points are control points of the preimage
	}
	g := imageOf(g0, f)
	ev["g"] = parts(g0)
	ev["tree"] = typeTree(g)
	ev["dim"] = g.Dimension()
	ev["isempty"] = g.IsEmpty()
	b := g.Boundary()
	bb := b
	if inv != nil {
		bb = b.TransformXY(inv)
	}
	ev["bnd"] = parts(bb)
	ev["bbempty"] = b.Boundary().IsEmpty()
	ev["btree"] = emptyTree(b)
	pos := g.PointOnSurface()
	if xy, ok := pos.XY(); ok {
		if inv != nil {
			xy = inv(xy)
		}
		x, y := xy.X*1024, xy.Y*1024
		ev["pos"] = Event{"empty": false, "q": []int{scaled(xy.X, 1024), scaled(xy.Y, 1024)},
			"exact": x == math.Round(x) && y == math.Round(y)}
	}
	ev["nt"] = !g.IsEmpty()
	return ev
}

func init() {
	register("boundary", &Family{Gen: boundaryGen, Exec: boundaryExec, OnPanic: boundaryOnPanic})
}
