package main

import (
	"fmt"
	"math"
	"math/rand"

	"github.com/peterstace/simplefeatures/geom"
)

// Family "equal" (C18).

func equalOnPanic(c Case) Event {
	e := Event{"t": "Point", "ct": "XY", "c": []string{}}
	return Event{"kind": c.str("kind"), "a": e, "b": e, "how": c.str("how"), "eq": false, "eqrev": false, "eqio": false, "eqiorev": false,
		"eqaa": false, "eqbb": false, "eqioaa": false, "eqiobb": false, "eqiom": false, "eqiogc": false, "p": [][]int{}, "q": [][]int{}, "t2": 0}
}

func equalExec(c Case) Event {
	ev := equalOnPanic(c)
	if c.str("kind") == "tolio" {
		mk := func(v interface{}) (geom.Geometry, [][]int) {
			var pts []geom.Point
			out := [][]int{}
			for _, p := range v.([]interface{}) {
				pp := p.([]interface{})
				x, y := jnum(pp[0]), jnum(pp[1])
				pts = append(pts, geom.XY{X: x, Y: y}.AsPoint())
				out = append(out, []int{int(x), int(y)})
			}
			return geom.NewMultiPoint(pts).AsGeometry(), out
		}
		a, pa := mk(c["p"])
		b, pb := mk(c["q"])
		t := math.Sqrt(float64(c.num("t2")))
		opts := []geom.ExactEqualsOption{geom.IgnoreOrder, geom.ToleranceXY(t)}
		ev["p"], ev["q"], ev["t2"] = pa, pb, c.num("t2")
		ev["eq"], ev["eqrev"] = geom.ExactEquals(a, b, opts...), geom.ExactEquals(b, a, opts...)
		ev["eqaa"], ev["eqbb"] = geom.ExactEquals(a, a, opts...), geom.ExactEquals(b, b, opts...)
		// as a GeometryCollection of Points and with the options in the other order the answers must be the same
		gc := func(g geom.Geometry) geom.Geometry {
			var ms []geom.Geometry
			mp := g.MustAsMultiPoint()
			for i := 0; i < mp.NumPoints(); i++ {
				ms = append(ms, mp.PointN(i).AsGeometry())
			}
			return geom.NewGeometryCollection(ms).AsGeometry()
		}
		if geom.ExactEquals(gc(a), gc(b), geom.ToleranceXY(t), geom.IgnoreOrder) != ev["eq"].(bool) {
			ev["eqrev"] = !ev["eq"].(bool) // reported as an asymmetry
		}
		if !geom.ExactEquals(gc(a), gc(a), geom.ToleranceXY(t), geom.IgnoreOrder) {
			ev["eqaa"] = false
		}
		return ev
	}
	if c.str("kind") == "curve" {
		// closed curves with integer vertices, simple or not: the start vertex is immaterial for rings only
		mk := func(v interface{}) (geom.LineString, [][]int) {
			var pts []geom.XY
			out := [][]int{}
			for _, p := range v.([]interface{}) {
				pp := p.([]interface{})
				x, y := jnum(pp[0]), jnum(pp[1])
				pts = append(pts, geom.XY{X: x, Y: y})
				out = append(out, []int{int(x), int(y)})
			}
			return geom.NewLineString(seqOf(pts)), out
		}
		a, pa := mk(c["p"])
		b, pb := mk(c["q"])
		ev["p"], ev["q"] = pa, pb
		ag, bg := a.AsGeometry(), b.AsGeometry()
		ev["eq"], ev["eqrev"] = geom.ExactEquals(ag, bg), geom.ExactEquals(bg, ag)
		ev["eqio"], ev["eqiorev"] = geom.ExactEquals(ag, bg, geom.IgnoreOrder), geom.ExactEquals(bg, ag, geom.IgnoreOrder)
		ev["eqaa"], ev["eqbb"] = geom.ExactEquals(ag, ag), geom.ExactEquals(bg, bg)
		ev["eqioaa"], ev["eqiobb"] = geom.ExactEquals(ag, ag, geom.IgnoreOrder), geom.ExactEquals(bg, bg, geom.IgnoreOrder)
		// the same pair as members of a MultiLineString (in swapped positions) and of a GeometryCollection
		extra := geom.NewLineString(seqOf([]geom.XY{{X: 50, Y: 50}, {X: 51, Y: 52}}))
		ma := geom.NewMultiLineString([]geom.LineString{extra, a}).AsGeometry()
		mb := geom.NewMultiLineString([]geom.LineString{b, extra}).AsGeometry()
		ga := geom.NewGeometryCollection([]geom.Geometry{ag, extra.AsGeometry()}).AsGeometry()
		gb := geom.NewGeometryCollection([]geom.Geometry{extra.AsGeometry(), bg}).AsGeometry()
		ev["eqiom"] = geom.ExactEquals(ma, mb, geom.IgnoreOrder)
		ev["eqiogc"] = geom.ExactEquals(ga, gb, geom.IgnoreOrder)
		return ev
	}
	if c.str("kind") == "tol" {
		mk := func(v interface{}) (geom.Geometry, [][]int) {
			var pts []geom.XY
			out := [][]int{}
			for _, p := range v.([]interface{}) {
				pp := p.([]interface{})
				x, y := jnum(pp[0]), jnum(pp[1])
				pts = append(pts, geom.XY{X: x, Y: y})
				out = append(out, []int{int(x), int(y)})
			}
			return geom.NewLineString(seqOf(pts)).AsGeometry(), out
		}
		a, pa := mk(c["p"])
		b, pb := mk(c["q"])
		t := math.Sqrt(float64(c.num("t2")))
		ev["p"], ev["q"], ev["t2"] = pa, pb, c.num("t2")
		ev["eq"], ev["eqrev"], ev["eqaa"] = geom.ExactEquals(a, b, geom.ToleranceXY(t)), geom.ExactEquals(b, a, geom.ToleranceXY(t)), geom.ExactEquals(a, a, geom.ToleranceXY(t))
		return ev
	}
	ta, tb := asTree(c["a"]), asTree(c["b"])
	a, b := buildTree(ta), buildTree(tb)
	ev["a"], ev["b"] = ta, tb
	ev["eq"], ev["eqrev"] = geom.ExactEquals(a, b), geom.ExactEquals(b, a)
	ev["eqio"], ev["eqiorev"] = geom.ExactEquals(a, b, geom.IgnoreOrder), geom.ExactEquals(b, a, geom.IgnoreOrder)
	ev["eqaa"], ev["eqbb"] = geom.ExactEquals(a, a), geom.ExactEquals(b, b)
	ev["eqioaa"], ev["eqiobb"] = geom.ExactEquals(a, a, geom.IgnoreOrder), geom.ExactEquals(b, b, geom.IgnoreOrder)
	ev["nt"] = !a.IsEmpty()
	return ev
}

// ---- random variants of a tree: reorderings (must stay IgnoreOrder-equal) and single mutations
func shuffleList(r *rand.Rand, l []interface{}) []interface{} {
	out := append([]interface{}{}, l...)
	r.Shuffle(len(out), func(i, j int) { out[i], out[j] = out[j], out[i] })
	return out
}

func revList(l []interface{}) []interface{} {
	out := make([]interface{}, len(l))
	for i := range l {
		out[len(l)-1-i] = l[i]
	}
	return out
}

func rotRing(r *rand.Rand, ring []interface{}) []interface{} {
	n := len(ring) - 1
	if n < 3 {
		return ring
	}
	// The start vertex of a closed curve is only immaterial for rings (simple and closed): domain guard.
	// Known finding F17 (recorded, not repaired): the library's simplicity test is not invariant under the choice of
	// start vertex when ordinates are beyond ~1e150 (overflow) or two vertices nearly coincide, so IsRing - which
	// ExactEquals consults - can differ between rotations of one ring. Random rotations are only made of rings that
	// the library classifies consistently; the recorded failing inputs are replayed explicitly (equalKnown).
	if len(asList(ring[0])) < 2 {
		return ring
	}
	ct := ctypes[len(asList(ring[0]))-2+boolInt(len(asList(ring[0])) == 4)]
	for k := 0; k < n; k++ {
		rot := []interface{}{}
		for i := 0; i < n; i++ {
			rot = append(rot, ring[(i+k)%n])
		}
		rot = append(rot, rot[0])
		if !geom.NewLineString(ptsSeq(rot, ct)).IsRing() || !geom.NewLineString(ptsSeq(revList(rot), ct)).IsRing() {
			return ring
		}
	}
	k := r.Intn(n)
	out := []interface{}{}
	for i := 0; i < n; i++ {
		out = append(out, ring[(i+k)%n])
	}
	out = append(out, out[0])
	if r.Intn(2) == 0 {
		out = revList(out)
	}
	return out
}

func reorderTree(r *rand.Rand, t T) T {
	out := T{"t": t["t"], "ct": t["ct"]}
	c := asList(t["c"])
	poly := func(p []interface{}) []interface{} {
		if len(p) == 0 {
			return p
		}
		rings := []interface{}{rotRing(r, asList(p[0]))}
		holes := []interface{}{}
		for _, h := range p[1:] {
			holes = append(holes, rotRing(r, asList(h)))
		}
		return append(rings, shuffleList(r, holes)...)
	}
	switch fmt.Sprint(t["t"]) {
	case "LineString":
		if r.Intn(2) == 0 {
			c = revList(c)
		}
	case "Polygon":
		c = poly(c)
	case "MultiPoint":
		c = shuffleList(r, c)
	case "MultiLineString":
		nc := []interface{}{}
		for _, l := range c {
			ll := asList(l)
			if r.Intn(2) == 0 {
				ll = revList(ll)
			}
			nc = append(nc, ll)
		}
		c = shuffleList(r, nc)
	case "MultiPolygon":
		nc := []interface{}{}
		for _, p := range c {
			nc = append(nc, poly(asList(p)))
		}
		c = shuffleList(r, nc)
	case "GeometryCollection":
		nc := []interface{}{}
		for _, m := range c {
			nc = append(nc, reorderTree(r, asTree(m)))
		}
		c = shuffleList(r, nc)
	}
	out["c"] = c
	return out
}

func boolInt(b bool) int {
	if b {
		return 1
	}
	return 0
}

// mutateTree changes exactly one ordinate token somewhere (by one ulp), if there is one.
func mutateTree(r *rand.Rand, v interface{}) (interface{}, bool) {
	switch x := v.(type) {
	case string:
		if len(x) == 16 {
			f := hexFloat(x)
			return tok(math.Nextafter(f, math.Inf(1))), true
		}
		return x, false
	case []interface{}:
		if len(x) == 0 {
			return x, false
		}
		idx := r.Perm(len(x))
		for _, i := range idx {
			if nv, ok := mutateTree(r, x[i]); ok {
				out := append([]interface{}(nil), x...)
				out[i] = nv
				return out, true
			}
		}
		return x, false
	case map[string]interface{}:
		nc, ok := mutateTree(r, x["c"])
		return T{"t": x["t"], "ct": x["ct"], "c": nc}, ok
	}
	return v, false
}

// equalKnown: the recorded inputs of known finding F17 (see known_findings.jsonl).
func equalKnown() []Case {
	mk := func(how string, v [][]interface{}, order []int) Case {
		ring := func(idx []int) []interface{} {
			out := []interface{}{}
			for _, i := range idx {
				out = append(out, v[i])
			}
			return append(out, out[0])
		}
		id := make([]int, len(v))
		for i := range id {
			id[i] = i
		}
		return Case{"kind": "pair", "how": how, "a": T{"t": "LineString", "ct": "XY", "c": ring(id)}, "b": T{"t": "LineString", "ct": "XY", "c": ring(order)}}
	}
	return []Case{
		// a triangle with an ordinate at the largest finite float64, started at another vertex
		mk("known-F17-ring-rotation-at-max-float", [][]interface{}{{"419d6f34547e6b75", "7fefffffffffffff"}, {"40412800d11f981b", "c0402e4b2407f96c"},
			{"e36f5d734e4600e6", "4004000000000000"}}, []int{2, 0, 1}),
		// a pentagon with two vertices 1e-33 apart, started at another vertex
		mk("known-F17-ring-rotation-near-coincident-vertices", [][]interface{}{{"0000000000000000", "400921fb54442d18"}, {"b9180576f36d1470", "400921fb54442d18"},
			{"4051132324fea557", "4082380000000000"}, {"4004000000000000", "01a56e1fc2f8f359"}, {"c085980000000000", "c02d2ed2eba8c4de"}}, []int{1, 2, 3, 4, 0}),
	}
}

func equalGen(r *rand.Rand, n int, tier string, emit func(Case)) {
	for _, c := range equalKnown() {
		emit(c)
	}
	for i := 0; i < n+bigExtra(n); i++ {
		big := i >= n // large sizes come last
		k := i
		if big {
			k = 0 // none of the special kinds below
		}
		if k%12 == 5 {
			// clusters of near points: "within t" is not transitive, so the member matching has to backtrack
			m := 2 + r.Intn(5)
			t2 := []int{1, 2, 4}[r.Intn(3)]
			p, q := []interface{}{}, []interface{}{}
			x := r.Intn(3)
			for j := 0; j < m; j++ {
				p = append(p, []interface{}{x, r.Intn(2)})
				x += r.Intn(3) // 0, 1 or 2 apart: chains
			}
			for _, v := range r.Perm(m) {
				pp := p[v].([]interface{})
				q = append(q, []interface{}{pp[0].(int) + r.Intn(3) - 1, pp[1].(int) + r.Intn(2)})
			}
			if r.Intn(4) == 0 {
				q = append([]interface{}{}, p...)
				r.Shuffle(len(q), func(a, b int) { q[a], q[b] = q[b], q[a] })
			}
			emit(Case{"kind": "tolio", "p": p, "q": q, "t2": t2})
			continue
		}
		if k%12 == 8 {
			// a closed walk on a small lattice (successive vertices distinct) and a variant of it
			N := 2 + r.Intn(3)
			m := 3 + r.Intn(4)
			var p []interface{}
			for len(p) < m {
				v := []interface{}{r.Intn(N + 1), r.Intn(N + 1)}
				if len(p) > 0 && v[0] == p[len(p)-1].([]interface{})[0] && v[1] == p[len(p)-1].([]interface{})[1] {
					continue
				}
				if len(p) == m-1 && v[0] == p[0].([]interface{})[0] && v[1] == p[0].([]interface{})[1] {
					continue
				}
				p = append(p, v)
			}
			cyc := append([]interface{}{}, p...)
			p = append(p, p[0])
			k := r.Intn(m)
			q := []interface{}{}
			for j := 0; j < m; j++ {
				q = append(q, cyc[(j+k)%m])
			}
			q = append(q, q[0])
			switch r.Intn(5) {
			case 0:
				q = append([]interface{}{}, p...)
			case 1:
				q = revList(p)
			case 2:
				q = revList(q)
			case 3: // one vertex moved
				j := r.Intn(m)
				v := q[j].([]interface{})
				q[j] = []interface{}{v[0].(int) + 1, v[1]}
				if j == 0 {
					q[m] = q[0]
				}
			}
			emit(Case{"kind": "curve", "p": p, "q": q})
			continue
		}
		if k%12 == 11 {
			m := 2 + r.Intn(4)
			p, q := []interface{}{}, []interface{}{}
			t2 := []int{0, 1, 2, 4, 5, 9}[r.Intn(6)]
			for j := 0; j < m; j++ {
				x, y := r.Intn(20), r.Intn(20)
				p = append(p, []interface{}{x, y})
				dx, dy := 0, 0
				if r.Intn(2) == 0 {
					dx, dy = r.Intn(5)-2, r.Intn(5)-2
				}
				q = append(q, []interface{}{x + dx, y + dy})
			}
			emit(Case{"kind": "tol", "p": p, "q": q, "t2": t2})
			continue
		}
		tg := &treeGen{r: r, finite: true, simple: r.Intn(3) != 0, big: big}
		if big {
			// arbitrary values: two of many small integer points would often be equal, and the library's member matching
			// takes k! steps to refute a bijection among k equal members (the property speaks of up to six)
			tg.simple = false
		}
		base := normalizeTree(tg.tree(0, ctypes[r.Intn(4)], ""))
		var other T
		how := ""
		sel := r.Intn(4)
		if big && r.Intn(3) == 0 {
			sel = 4
		}
		switch sel {
		case 4:
			// the same members in different multiplicities: {.., A, A, B} against {.., A, B, B}, B one ulp from A. Equal
			// as sets, different as multisets - a bijection of members is what IgnoreOrder asks for
			kind := []string{"MultiPoint", "MultiLineString", "GeometryCollection"}[r.Intn(3)]
			base = normalizeTree(tg.tree(0, ctypes[r.Intn(4)], kind))
			c := asList(base["c"])
			var a, b interface{}
			for _, k := range r.Perm(len(c)) {
				if nb, ok := mutateTree(r, c[k]); ok {
					a, b = c[k], nb
					break
				}
			}
			if a == nil {
				other, how = base, "same"
				break
			}
			ca := append(append([]interface{}{}, c...), a, a, b)
			cb := shuffleList(r, append(append([]interface{}{}, c...), a, b, b))
			base = T{"t": base["t"], "ct": base["ct"], "c": ca}
			other, how = T{"t": base["t"], "ct": base["ct"], "c": cb}, "multiset"
		case 0:
			other, how = base, "same"
		case 1:
			other, how = reorderTree(r, base), "reorder"
		case 2:
			o, _ := mutateTree(r, reorderTree(r, base))
			other, how = asTree(o), "reorder+ulp"
		default:
			o, _ := mutateTree(r, base)
			other, how = asTree(o), "ulp"
		}
		emit(Case{"kind": "pair", "a": base, "b": other, "how": how})
	}
}

// normalizeTree converts the typed slices produced by the generators into generic JSON-like values.
func normalizeTree(t T) T {
	c := normalize(Case(t))
	return T(c)
}

func init() {
	register("equal", &Family{Gen: equalGen, Exec: equalExec, OnPanic: equalOnPanic})
}
