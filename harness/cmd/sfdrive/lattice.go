package main

import (
	"math"
	"math/rand"
	"sort"

	"github.com/peterstace/simplefeatures/geom"
)

// flat is the point-set view of one leaf member: the encoding PointSet.tla reads.
type flat struct {
	Pts   [][]int     `json:"pts"`
	Lines [][][]int   `json:"lines"`
	Areas [][][][]int `json:"areas"`
}

func newFlat() *flat { return &flat{Pts: [][]int{}, Lines: [][][]int{}, Areas: [][][][]int{}} }

func seqInts(s geom.Sequence) [][]int {
	out := make([][]int, 0, s.Length())
	for i := 0; i < s.Length(); i++ {
		xy := s.GetXY(i)
		out = append(out, []int{li(xy.X), li(xy.Y)})
	}
	return out
}

func polyInts(p geom.Polygon) [][][]int {
	rings := [][][]int{}
	for _, r := range p.DumpRings() {
		rings = append(rings, seqInts(r.Coordinates()))
	}
	return rings
}

// leafFlat flattens a non-collection geometry.
func leafFlat(g geom.Geometry) *flat {
	f := newFlat()
	switch g.Type() {
	case geom.TypePoint:
		if xy, ok := g.MustAsPoint().XY(); ok {
			f.Pts = append(f.Pts, []int{li(xy.X), li(xy.Y)})
		}
	case geom.TypeMultiPoint:
		mp := g.MustAsMultiPoint()
		for i := 0; i < mp.NumPoints(); i++ {
			if xy, ok := mp.PointN(i).XY(); ok {
				f.Pts = append(f.Pts, []int{li(xy.X), li(xy.Y)})
			}
		}
	case geom.TypeLineString:
		ls := g.MustAsLineString()
		if !ls.IsEmpty() {
			f.Lines = append(f.Lines, seqInts(ls.Coordinates()))
		}
	case geom.TypeMultiLineString:
		m := g.MustAsMultiLineString()
		for i := 0; i < m.NumLineStrings(); i++ {
			if ls := m.LineStringN(i); !ls.IsEmpty() {
				f.Lines = append(f.Lines, seqInts(ls.Coordinates()))
			}
		}
	case geom.TypePolygon:
		if p := g.MustAsPolygon(); !p.IsEmpty() {
			f.Areas = append(f.Areas, polyInts(p))
		}
	case geom.TypeMultiPolygon:
		m := g.MustAsMultiPolygon()
		for i := 0; i < m.NumPolygons(); i++ {
			if p := m.PolygonN(i); !p.IsEmpty() {
				f.Areas = append(f.Areas, polyInts(p))
			}
		}
	default:
		panic("leafFlat: collection")
	}
	return f
}

func (f *flat) empty() bool { return len(f.Pts) == 0 && len(f.Lines) == 0 && len(f.Areas) == 0 }

// parts: the non-empty leaf members of g (a geometry is a sequence of leaf flats in the specs).
func parts(g geom.Geometry) []*flat {
	out := []*flat{}
	var rec func(g geom.Geometry)
	rec = func(g geom.Geometry) {
		if g.Type() == geom.TypeGeometryCollection {
			gc := g.MustAsGeometryCollection()
			for i := 0; i < gc.NumGeometries(); i++ {
				rec(gc.GeometryN(i))
			}
			return
		}
		if f := leafFlat(g); !f.empty() {
			out = append(out, f)
		}
	}
	rec(g)
	return out
}

// ---------------------------------------------------------------- generators

type lgen struct {
	r *rand.Rand
	N int // lattice side: ordinates in 0..N
}

func (l *lgen) pt() geom.XY {
	return geom.XY{X: float64(l.r.Intn(l.N + 1)), Y: float64(l.r.Intn(l.N + 1))}
}

func seqOf(pts []geom.XY) geom.Sequence {
	fs := make([]float64, 0, 2*len(pts))
	for _, p := range pts {
		fs = append(fs, p.X, p.Y)
	}
	return geom.NewSequence(fs, geom.DimXY)
}

func (l *lgen) lineString() geom.LineString {
	for {
		n := 2 + l.r.Intn(4)
		pts := make([]geom.XY, n)
		for i := range pts {
			pts[i] = l.pt()
		}
		if l.r.Intn(5) == 0 { // closed
			pts = append(pts, pts[0])
		}
		if l.r.Intn(8) == 0 { // repeated vertex
			k := l.r.Intn(len(pts))
			pts = append(pts[:k+1], pts[k:]...)
		}
		ls := geom.NewLineString(seqOf(pts))
		if genValid(ls) {
			return ls
		}
	}
}

// rawRing: a closed ring from 3..6 lattice points, either in random order or sorted by
// angle around their mean (star-shaped, usually simple).
func (l *lgen) rawRing(ox, oy, side int) geom.LineString {
	n := 3 + l.r.Intn(4)
	pts := make([]geom.XY, n)
	for i := range pts {
		pts[i] = geom.XY{X: float64(ox + l.r.Intn(side+1)), Y: float64(oy + l.r.Intn(side+1))}
	}
	if l.r.Intn(3) != 0 {
		var cx, cy float64
		for _, p := range pts {
			cx += p.X
			cy += p.Y
		}
		cx /= float64(n)
		cy /= float64(n)
		sort.Slice(pts, func(i, j int) bool {
			return math.Atan2(pts[i].Y-cy, pts[i].X-cx) < math.Atan2(pts[j].Y-cy, pts[j].X-cx)
		})
		if l.r.Intn(2) == 0 {
			for i, j := 0, len(pts)-1; i < j; i, j = i+1, j-1 {
				pts[i], pts[j] = pts[j], pts[i]
			}
		}
	}
	pts = append(pts, pts[0])
	if l.r.Intn(8) == 0 { // a vertex written twice (the start vertex included): same point set, same validity
		k := l.r.Intn(len(pts))
		pts = append(pts[:k+1], pts[k:]...)
	}
	return geom.NewLineString(seqOf(pts))
}

func boxRing(x0, y0, x1, y1 int) geom.LineString {
	return geom.NewLineString(seqOf([]geom.XY{{X: float64(x0), Y: float64(y0)}, {X: float64(x1), Y: float64(y0)},
		{X: float64(x1), Y: float64(y1)}, {X: float64(x0), Y: float64(y1)}, {X: float64(x0), Y: float64(y0)}}))
}

// rawPolygon: shell + 0..2 holes, not validated.
func (l *lgen) rawPolygon() geom.Polygon {
	var rings []geom.LineString
	switch l.r.Intn(4) {
	case 0:
		a, b := l.r.Intn(l.N), l.r.Intn(l.N)
		rings = append(rings, boxRing(a, b, a+1+l.r.Intn(l.N-a), b+1+l.r.Intn(l.N-b)))
	case 1:
		rings = append(rings, boxRing(0, 0, l.N, l.N))
	default:
		rings = append(rings, l.rawRing(0, 0, l.N))
	}
	nh := 0
	switch l.r.Intn(6) {
	case 0, 1:
		nh = 1
	case 2:
		nh = 2
	}
	for h := 0; h < nh; h++ {
		if l.r.Intn(2) == 0 {
			side := 1 + l.r.Intn(2)
			rings = append(rings, l.rawRing(l.r.Intn(l.N-side+1), l.r.Intn(l.N-side+1), side))
		} else {
			rings = append(rings, l.rawRing(0, 0, l.N))
		}
	}
	return geom.NewPolygon(rings)
}

func (l *lgen) polygon() geom.Polygon {
	for {
		p := l.rawPolygon()
		if genValid(p) {
			return p
		}
	}
}

func (l *lgen) multiPoint() geom.MultiPoint {
	var pts []geom.Point
	for i, n := 0, 1+l.r.Intn(4); i < n; i++ {
		pts = append(pts, l.pt().AsPoint())
	}
	if l.r.Intn(5) == 0 { // an empty member at any position (also first, also several)
		for k, m := 0, 1+l.r.Intn(2); k < m; k++ {
			i := l.r.Intn(len(pts) + 1)
			pts = append(pts[:i], append([]geom.Point{{}}, pts[i:]...)...)
		}
	}
	return geom.NewMultiPoint(pts)
}

func (l *lgen) multiLineString() geom.MultiLineString {
	var ls []geom.LineString
	for i, n := 0, 1+l.r.Intn(3); i < n; i++ {
		ls = append(ls, l.lineString())
	}
	if l.r.Intn(5) == 0 {
		i := l.r.Intn(len(ls) + 1)
		ls = append(ls[:i], append([]geom.LineString{{}}, ls[i:]...)...)
	}
	return geom.NewMultiLineString(ls)
}

func (l *lgen) multiPolygon() geom.MultiPolygon {
	for tries := 0; ; tries++ {
		var ps []geom.Polygon
		n := 1 + l.r.Intn(3)
		if tries > 50 {
			n = 1
		}
		for i := 0; i < n; i++ {
			ps = append(ps, l.polygon())
		}
		if l.r.Intn(5) == 0 {
			i := l.r.Intn(len(ps) + 1)
			ps = append(ps[:i], append([]geom.Polygon{{}}, ps[i:]...)...)
		}
		mp := geom.NewMultiPolygon(ps)
		if genValid(mp) {
			return mp
		}
	}
}

func emptyOf(t int) geom.Geometry {
	switch t % 7 {
	case 0:
		return geom.Point{}.AsGeometry()
	case 1:
		return geom.LineString{}.AsGeometry()
	case 2:
		return geom.Polygon{}.AsGeometry()
	case 3:
		return geom.MultiPoint{}.AsGeometry()
	case 4:
		return geom.MultiLineString{}.AsGeometry()
	case 5:
		return geom.MultiPolygon{}.AsGeometry()
	}
	return geom.GeometryCollection{}.AsGeometry()
}

// leaf: a valid non-collection geometry of type index t (0..5).
func (l *lgen) leafOfType(t int) geom.Geometry {
	switch t {
	case 0:
		return l.pt().AsPoint().AsGeometry()
	case 1:
		return l.lineString().AsGeometry()
	case 2:
		return l.polygon().AsGeometry()
	case 3:
		return l.multiPoint().AsGeometry()
	case 4:
		return l.multiLineString().AsGeometry()
	}
	return l.multiPolygon().AsGeometry()
}

func (l *lgen) leaf() geom.Geometry {
	if l.r.Intn(25) == 0 {
		return emptyOf(l.r.Intn(6))
	}
	return l.leafOfType(l.r.Intn(6))
}

// collection: 0..3 members, possibly nested, possibly with empty members; members may overlap.
func (l *lgen) collection(depth int) geom.Geometry {
	var gs []geom.Geometry
	for i, n := 0, l.r.Intn(4); i < n; i++ {
		if depth < 2 && l.r.Intn(6) == 0 {
			gs = append(gs, l.collection(depth+1))
		} else {
			gs = append(gs, l.leaf())
		}
	}
	return geom.NewGeometryCollection(gs).AsGeometry()
}

// any: all seven types.
func (l *lgen) any(gcProb int) geom.Geometry {
	if gcProb > 0 && l.r.Intn(16) == 0 {
		return l.nestedEmptyHigher()
	}
	if gcProb > 0 && l.r.Intn(gcProb) == 0 {
		return l.collection(0)
	}
	return l.leaf()
}

// ---------------------------------------------------------------- exact similarity images

// simil is an exact similarity of the lattice: p -> s * R(p) + t with R one of the 8 axis symmetries.
type simil struct {
	S, Tx, Ty float64
	Sym       int
}

func (t simil) apply(p geom.XY) geom.XY {
	x, y := p.X, p.Y
	if t.Sym&1 != 0 {
		x, y = y, x
	}
	if t.Sym&2 != 0 {
		x = -x
	}
	if t.Sym&4 != 0 {
		y = -y
	}
	return geom.XY{X: t.S*x + t.Tx, Y: t.S*y + t.Ty}
}

func (t simil) inv(p geom.XY) geom.XY {
	x, y := (p.X-t.Tx)/t.S, (p.Y-t.Ty)/t.S
	if t.Sym&4 != 0 {
		y = -y
	}
	if t.Sym&2 != 0 {
		x = -x
	}
	if t.Sym&1 != 0 {
		x, y = y, x
	}
	return geom.XY{X: x, Y: y}
}

func identitySimil() simil { return simil{S: 1} }

// randSimil: image stays within |c| <= 1024 for a lattice 0..N.
func (l *lgen) randSimil() simil {
	maxS := 1024 / l.N
	if maxS > 128 {
		maxS = 128
	}
	s := 1 + l.r.Intn(maxS)
	t := simil{S: float64(s), Sym: l.r.Intn(8)}
	// image of [0,N] under the symmetry spans [-sN, sN]; pick the translation to stay in range
	span := s * l.N
	lo := func(neg bool) int {
		if neg {
			return -1024 + span
		}
		return -1024
	}
	hi := func(neg bool) int {
		if neg {
			return 1024
		}
		return 1024 - span
	}
	nx, ny := t.Sym&2 != 0, t.Sym&4 != 0
	t.Tx = float64(lo(nx) + l.r.Intn(hi(nx)-lo(nx)+1))
	t.Ty = float64(lo(ny) + l.r.Intn(hi(ny)-lo(ny)+1))
	return t
}

// randDyadic: an exact similarity whose scale is a power of two far from 1 - the image has the same exact degeneracies
// as the lattice (scaling by a power of two commutes with every IEEE operation short of overflow and underflow), but
// its magnitude is 1e-12 .. 1e9: what depends on an absolute epsilon, on a float32, on a squared length where a length
// was meant, shows there and nowhere on small integers. With offset, a tiny image also sits far from the origin
// (closely spaced vertices at a large offset: where formulas cancel) - only for the families that make no claim which
// depends on clearance relative to the magnitude.
func (l *lgen) randDyadic(offset bool) simil {
	exps := []int{-40, -30, -20, -10, 20, 30}
	e := exps[l.r.Intn(len(exps))]
	t := simil{S: math.Ldexp(1, e), Sym: l.r.Intn(8)}
	if offset && (e == -10 || e == -20) {
		// The properties grant measures an error of 1e-9 of the coordinate magnitude. In lattice units that is
		// 1e-9 * |T| / S, which must stay below one unit for the verdict to mean anything: |T| <= 1024 for 2^-10
		// and |T| <= 400 for 2^-20 (every image ordinate is exactly representable: at most 31 + 10 bits).
		lim := 1024
		if e == -20 {
			lim = 400
		}
		t.Tx = float64(l.r.Intn(lim+1)) * []float64{1, -1}[l.r.Intn(2)]
		t.Ty = float64(l.r.Intn(lim+1)) * []float64{1, -1}[l.r.Intn(2)]
	}
	return t
}

func (t simil) toCase() []interface{} {
	return []interface{}{bitsHex(t.S), bitsHex(t.Tx), bitsHex(t.Ty), t.Sym}
}

func applySimil(g geom.Geometry, t simil) geom.Geometry {
	if t.S == 1 && t.Tx == 0 && t.Ty == 0 && t.Sym == 0 {
		return g
	}
	return g.TransformXY(t.apply)
}

// nestedEmptyHigher builds a nested collection holding an empty member of higher dimension than its non-empty members,
// at any position and nesting depth (Dimension() of a collection counts empty members; "the highest dimension" of
// centroids, points on surface, boundaries and matrices must not).
func (l *lgen) nestedEmptyHigher() geom.Geometry {
	r := l.r
	var g geom.Geometry
	// a nested collection holding an empty member of higher dimension than its non-empty members, at any position
	// and nesting depth (Dimension() of a collection counts empty members; "highest dimension" must not)
	lo := []int{0, 3, 1, 4}[r.Intn(4)] // Point, MultiPoint, LineString, MultiLineString
	hiMin := 1
	if lo == 1 || lo == 4 {
		hiMin = 2
	}
	empties := map[int][]geom.Geometry{
		1: {geom.LineString{}.AsGeometry(), geom.MultiLineString{}.AsGeometry(), geom.Polygon{}.AsGeometry(), geom.MultiPolygon{}.AsGeometry()},
		2: {geom.Polygon{}.AsGeometry(), geom.MultiPolygon{}.AsGeometry(), mustWKT("MULTIPOLYGON(EMPTY)")},
	}[hiMin]
	ms := []geom.Geometry{l.leafOfType(lo), empties[r.Intn(len(empties))]}
	if r.Intn(2) == 0 {
		ms = append(ms, l.leafOfType(lo))
	}
	r.Shuffle(len(ms), func(i, j int) { ms[i], ms[j] = ms[j], ms[i] })
	g = geom.NewGeometryCollection(ms).AsGeometry()
	for k, d := 0, r.Intn(3); k < d; k++ {
		outer := []geom.Geometry{g}
		if r.Intn(2) == 0 {
			outer = append(outer, l.leafOfType(lo))
		}
		if r.Intn(3) == 0 {
			outer = append([]geom.Geometry{empties[r.Intn(len(empties))]}, outer...)
		}
		g = geom.NewGeometryCollection(outer).AsGeometry()
	}
	return g
}
