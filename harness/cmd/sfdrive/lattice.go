package main

import (
	"math"
	"math/rand"
	"sort"

	"github.com/peterstace/simplefeatures/geom"
)

// flat is the point-set view of one leaf member: the encoding PointSet.tla reads.
type flat struct {
	Pts   [][]int     `json:"pts"`
	Lines [][][]int   `json:"lines"`
	Areas [][][][]int `json:"areas"`
}

func newFlat() *flat { return &flat{Pts: [][]int{}, Lines: [][][]int{}, Areas: [][][][]int{}} }

func seqInts(s geom.Sequence) [][]int {
	out := make([][]int, 0, s.Length())
	for i := 0; i < s.Length(); i++ {
		xy := s.GetXY(i)
		out = append(out, []int{li(xy.X), li(xy.Y)})
	}
	return out
}

func polyInts(p geom.Polygon) [][][]int {
	rings := [][][]int{}
	for _, r := range p.DumpRings() {
		rings = append(rings, seqInts(r.Coordinates()))
	}
	return rings
}

// leafFlat flattens a non-collection geometry.
func leafFlat(g geom.Geometry) *flat {
	f := newFlat()
	switch g.Type() {
	case geom.TypePoint:
		if xy, ok := g.MustAsPoint().XY(); ok {
			f.Pts = append(f.Pts, []int{li(xy.X), li(xy.Y)})
		}
	case geom.TypeMultiPoint:
		mp := g.MustAsMultiPoint()
		for i := 0; i < mp.NumPoints(); i++ {
			if xy, ok := mp.PointN(i).XY(); ok {
				f.Pts = append(f.Pts, []int{li(xy.X), li(xy.Y)})
			}
		}
	case geom.TypeLineString:
		ls := g.MustAsLineString()
		if !ls.IsEmpty() {
			f.Lines = append(f.Lines, seqInts(ls.Coordinates()))
		}
	case geom.TypeMultiLineString:
		m := g.MustAsMultiLineString()
		for i := 0; i < m.NumLineStrings(); i++ {
			if ls := m.LineStringN(i); !ls.IsEmpty() {
				f.Lines = append(f.Lines, seqInts(ls.Coordinates()))
			}
		}
	case geom.TypePolygon:
		if p := g.MustAsPolygon(); !p.IsEmpty() {
			f.Areas = append(f.Areas, polyInts(p))
		}
	case geom.TypeMultiPolygon:
		m := g.MustAsMultiPolygon()
		for i := 0; i < m.NumPolygons(); i++ {
			if p := m.PolygonN(i); !p.IsEmpty() {
				f.Areas = append(f.Areas, polyInts(p))
			}
		}
	default:
		panic("leafFlat: collection")
	}
	return f
}

func (f *flat) empty() bool { return len(f.Pts) == 0 && len(f.Lines) == 0 && len(f.Areas) == 0 }

// parts: the non-empty leaf members of g (a geometry is a sequence of leaf flats in the specs).
func parts(g geom.Geometry) []*flat {
	out := []*flat{}
	var rec func(g geom.Geometry)
	rec = func(g geom.Geometry) {
		if g.Type() == geom.TypeGeometryCollection {
			gc := g.MustAsGeometryCollection()
			for i := 0; i < gc.NumGeometries(); i++ {
				rec(gc.GeometryN(i))
			}
			return
		}
		if f := leafFlat(g); !f.empty() {
			out = append(out, f)
		}
	}
	rec(g)
	return out
}

// ---------------------------------------------------------------- generators

type lgen struct {
	r   *rand.Rand
	N   int // lattice side: ordinates in 0..N
	Big bool
}

func (l *lgen) pt() geom.XY {
	return geom.XY{X: float64(l.r.Intn(l.N + 1)), Y: float64(l.r.Intn(l.N + 1))}
}

func seqOf(pts []geom.XY) geom.Sequence {
	fs := make([]float64, 0, 2*len(pts))
	for _, p := range pts {
		fs = append(fs, p.X, p.Y)
	}
	return geom.NewSequence(fs, geom.DimXY)
}

func (l *lgen) lineString() geom.LineString {
	for {
		n := 2 + l.r.Intn(4)
		pts := make([]geom.XY, n)
		for i := range pts {
			pts[i] = l.pt()
		}
		if l.r.Intn(5) == 0 { // closed
			pts = append(pts, pts[0])
		}
		if l.r.Intn(8) == 0 { // repeated vertex
			k := l.r.Intn(len(pts))
			pts = append(pts[:k+1], pts[k:]...)
		}
		ls := geom.NewLineString(seqOf(pts))
		if genValid(ls) {
			return ls
		}
	}
}

// rawRing: a closed ring from 3..6 lattice points, either in random order or sorted by
// angle around their mean (star-shaped, usually simple).
func (l *lgen) rawRing(ox, oy, side int) geom.LineString {
	n := 3 + l.r.Intn(4)
	pts := make([]geom.XY, n)
	for i := range pts {
		pts[i] = geom.XY{X: float64(ox + l.r.Intn(side+1)), Y: float64(oy + l.r.Intn(side+1))}
	}
	if l.r.Intn(3) != 0 {
		var cx, cy float64
		for _, p := range pts {
			cx += p.X
			cy += p.Y
		}
		cx /= float64(n)
		cy /= float64(n)
		sort.Slice(pts, func(i, j int) bool {
			return math.Atan2(pts[i].Y-cy, pts[i].X-cx) < math.Atan2(pts[j].Y-cy, pts[j].X-cx)
		})
		if l.r.Intn(2) == 0 {
			for i, j := 0, len(pts)-1; i < j; i, j = i+1, j-1 {
				pts[i], pts[j] = pts[j], pts[i]
			}
		}
	}
	pts = append(pts, pts[0])
	if l.r.Intn(8) == 0 { // a vertex written twice (the start vertex included): same point set, same validity
		k := l.r.Intn(len(pts))
		pts = append(pts[:k+1], pts[k:]...)
	}
	return geom.NewLineString(seqOf(pts))
}

func boxRing(x0, y0, x1, y1 int) geom.LineString {
	return geom.NewLineString(seqOf([]geom.XY{{X: float64(x0), Y: float64(y0)}, {X: float64(x1), Y: float64(y0)},
		{X: float64(x1), Y: float64(y1)}, {X: float64(x0), Y: float64(y1)}, {X: float64(x0), Y: float64(y0)}}))
}

// rawPolygon: shell + 0..2 holes, not validated.
func (l *lgen) rawPolygon() geom.Polygon {
	var rings []geom.LineString
	switch l.r.Intn(4) {
	case 0:
		a, b := l.r.Intn(l.N), l.r.Intn(l.N)
		rings = append(rings, boxRing(a, b, a+1+l.r.Intn(l.N-a), b+1+l.r.Intn(l.N-b)))
	case 1:
		rings = append(rings, boxRing(0, 0, l.N, l.N))
	default:
		rings = append(rings, l.rawRing(0, 0, l.N))
	}
	nh := 0
	switch l.r.Intn(6) {
	case 0, 1:
		nh = 1
	case 2:
		nh = 2
	}
	for h := 0; h < nh; h++ {
		if l.r.Intn(2) == 0 {
			side := 1 + l.r.Intn(2)
			rings = append(rings, l.rawRing(l.r.Intn(l.N-side+1), l.r.Intn(l.N-side+1), side))
		} else {
			rings = append(rings, l.rawRing(0, 0, l.N))
		}
	}
	return geom.NewPolygon(rings)
}

func (l *lgen) polygon() geom.Polygon {
	for {
		p := l.rawPolygon()
		if genValid(p) {
			return p
		}
	}
}

func (l *lgen) multiPoint() geom.MultiPoint {
	var pts []geom.Point
	for i, n := 0, 1+l.r.Intn(4); i < n; i++ {
		pts = append(pts, l.pt().AsPoint())
	}
	if l.r.Intn(5) == 0 { // an empty member at any position (also first, also several)
		for k, m := 0, 1+l.r.Intn(2); k < m; k++ {
			i := l.r.Intn(len(pts) + 1)
			pts = append(pts[:i], append([]geom.Point{{}}, pts[i:]...)...)
		}
	}
	return geom.NewMultiPoint(pts)
}

func (l *lgen) multiLineString() geom.MultiLineString {
	var ls []geom.LineString
	for i, n := 0, 1+l.r.Intn(3); i < n; i++ {
		ls = append(ls, l.lineString())
	}
	if l.r.Intn(5) == 0 {
		i := l.r.Intn(len(ls) + 1)
		ls = append(ls[:i], append([]geom.LineString{{}}, ls[i:]...)...)
	}
	return geom.NewMultiLineString(ls)
}

func (l *lgen) multiPolygon() geom.MultiPolygon {
	for tries := 0; ; tries++ {
		var ps []geom.Polygon
		n := 1 + l.r.Intn(3)
		if tries > 50 {
			n = 1
		}
		for i := 0; i < n; i++ {
			ps = append(ps, l.polygon())
		}
		if l.r.Intn(5) == 0 {
			i := l.r.Intn(len(ps) + 1)
			ps = append(ps[:i], append([]geom.Polygon{{}}, ps[i:]...)...)
		}
		mp := geom.NewMultiPolygon(ps)
		if genValid(mp) {
			return mp
		}
	}
}

func emptyOf(t int) geom.Geometry {
	switch t % 7 {
	case 0:
		return geom.Point{}.AsGeometry()
	case 1:
		return geom.LineString{}.AsGeometry()
	case 2:
		return geom.Polygon{}.AsGeometry()
	case 3:
		return geom.MultiPoint{}.AsGeometry()
	case 4:
		return geom.MultiLineString{}.AsGeometry()
	case 5:
		return geom.MultiPolygon{}.AsGeometry()
	}
	return geom.GeometryCollection{}.AsGeometry()
}

// leaf: a valid non-collection geometry of type index t (0..5).
func (l *lgen) leafOfType(t int) geom.Geometry {
	switch t {
	case 0:
		return l.pt().AsPoint().AsGeometry()
	case 1:
		return l.lineString().AsGeometry()
	case 2:
		return l.polygon().AsGeometry()
	case 3:
		return l.multiPoint().AsGeometry()
	case 4:
		return l.multiLineString().AsGeometry()
	}
	return l.multiPolygon().AsGeometry()
}

func (l *lgen) leaf() geom.Geometry {
	if l.r.Intn(25) == 0 {
		return emptyOf(l.r.Intn(6))
	}
	return l.leafOfType(l.r.Intn(6))
}

// collection: 0..3 members, possibly nested, possibly with empty members; members may overlap.
func (l *lgen) collection(depth int) geom.Geometry {
	var gs []geom.Geometry
	for i, n := 0, l.r.Intn(4); i < n; i++ {
		if depth < 2 && l.r.Intn(6) == 0 {
			gs = append(gs, l.collection(depth+1))
		} else {
			gs = append(gs, l.leaf())
		}
	}
	return geom.NewGeometryCollection(gs).AsGeometry()
}

// any: all seven types.
func (l *lgen) any(gcProb int) geom.Geometry {
	if gcProb > 0 && l.r.Intn(16) == 0 {
		return l.nestedEmptyHigher()
	}
	if gcProb > 0 && l.r.Intn(gcProb) == 0 {
		return l.collection(0)
	}
	return l.leaf()
}

// ---------------------------------------------------------------- exact similarity images

// simil is an exact similarity of the lattice: p -> s * R(p) + t with R one of the 8 axis symmetries.
type simil struct {
	S, Tx, Ty float64
	Sym       int
}

func (t simil) apply(p geom.XY) geom.XY {
	x, y := p.X, p.Y
	if t.Sym&1 != 0 {
		x, y = y, x
	}
	if t.Sym&2 != 0 {
		x = -x
	}
	if t.Sym&4 != 0 {
		y = -y
	}
	return geom.XY{X: t.S*x + t.Tx, Y: t.S*y + t.Ty}
}

func (t simil) inv(p geom.XY) geom.XY {
	x, y := (p.X-t.Tx)/t.S, (p.Y-t.Ty)/t.S
	if t.Sym&4 != 0 {
		y = -y
	}
	if t.Sym&2 != 0 {
		x = -x
	}
	if t.Sym&1 != 0 {
		x, y = y, x
	}
	return geom.XY{X: x, Y: y}
}

func identitySimil() simil { return simil{S: 1} }

// randSimil: image stays within |c| <= 1024 for a lattice 0..N.
func (l *lgen) randSimil() simil {
	maxS := 1024 / l.N
	if maxS > 128 {
		maxS = 128
	}
	s := 1 + l.r.Intn(maxS)
	t := simil{S: float64(s), Sym: l.r.Intn(8)}
	// image of [0,N] under the symmetry spans [-sN, sN]; pick the translation to stay in range
	span := s * l.N
	lo := func(neg bool) int {
		if neg {
			return -1024 + span
		}
		return -1024
	}
	hi := func(neg bool) int {
		if neg {
			return 1024
		}
		return 1024 - span
	}
	nx, ny := t.Sym&2 != 0, t.Sym&4 != 0
	t.Tx = float64(lo(nx) + l.r.Intn(hi(nx)-lo(nx)+1))
	t.Ty = float64(lo(ny) + l.r.Intn(hi(ny)-lo(ny)+1))
	return t
}

// randDyadic: an exact similarity whose scale is a power of two far from 1 - the image has the same exact degeneracies
// as the lattice (scaling by a power of two commutes with every IEEE operation short of overflow and underflow), but
// its magnitude is 1e-12 .. 1e9: what depends on an absolute epsilon, on a float32, on a squared length where a length
// was meant, shows there and nowhere on small integers. With offset, a tiny image also sits far from the origin
// (closely spaced vertices at a large offset: where formulas cancel) - only for the families that make no claim which
// depends on clearance relative to the magnitude.
func (l *lgen) randDyadic(offset bool) simil {
	exps := []int{-40, -30, -20, -10, 20, 30}
	e := exps[l.r.Intn(len(exps))]
	t := simil{S: math.Ldexp(1, e), Sym: l.r.Intn(8)}
	if offset && (e == -10 || e == -20) {
		// The properties grant measures an error of 1e-9 of the coordinate magnitude. In lattice units that is
		// 1e-9 * |T| / S, which must stay below one unit for the verdict to mean anything: |T| <= 1024 for 2^-10
		// and |T| <= 400 for 2^-20 (every image ordinate is exactly representable: at most 31 + 10 bits).
		lim := 1024
		if e == -20 {
			lim = 400
		}
		t.Tx = float64(l.r.Intn(lim+1)) * []float64{1, -1}[l.r.Intn(2)]
		t.Ty = float64(l.r.Intn(lim+1)) * []float64{1, -1}[l.r.Intn(2)]
	}
	return t
}

func (t simil) toCase() []interface{} {
	return []interface{}{bitsHex(t.S), bitsHex(t.Tx), bitsHex(t.Ty), t.Sym}
}

func applySimil(g geom.Geometry, t simil) geom.Geometry {
	if t.S == 1 && t.Tx == 0 && t.Ty == 0 && t.Sym == 0 {
		return g
	}
	return g.TransformXY(t.apply)
}

// nestedEmptyHigher builds a nested collection holding an empty member of higher dimension than its non-empty members,
// at any position and nesting depth (Dimension() of a collection counts empty members; "the highest dimension" of
// centroids, points on surface, boundaries and matrices must not).
func (l *lgen) nestedEmptyHigher() geom.Geometry {
	r := l.r
	var g geom.Geometry
	// a nested collection holding an empty member of higher dimension than its non-empty members, at any position
	// and nesting depth (Dimension() of a collection counts empty members; "highest dimension" must not)
	lo := []int{0, 3, 1, 4}[r.Intn(4)] // Point, MultiPoint, LineString, MultiLineString
	hiMin := 1
	if lo == 1 || lo == 4 {
		hiMin = 2
	}
	empties := map[int][]geom.Geometry{
		1: {geom.LineString{}.AsGeometry(), geom.MultiLineString{}.AsGeometry(), geom.Polygon{}.AsGeometry(), geom.MultiPolygon{}.AsGeometry()},
		2: {geom.Polygon{}.AsGeometry(), geom.MultiPolygon{}.AsGeometry(), mustWKT("MULTIPOLYGON(EMPTY)")},
	}[hiMin]
	ms := []geom.Geometry{l.leafOfType(lo), empties[r.Intn(len(empties))]}
	if r.Intn(2) == 0 {
		ms = append(ms, l.leafOfType(lo))
	}
	r.Shuffle(len(ms), func(i, j int) { ms[i], ms[j] = ms[j], ms[i] })
	g = geom.NewGeometryCollection(ms).AsGeometry()
	for k, d := 0, r.Intn(3); k < d; k++ {
		outer := []geom.Geometry{g}
		if r.Intn(2) == 0 {
			outer = append(outer, l.leafOfType(lo))
		}
		if r.Intn(3) == 0 {
			outer = append([]geom.Geometry{empties[r.Intn(len(empties))]}, outer...)
		}
		g = geom.NewGeometryCollection(outer).AsGeometry()
	}
	return g
}

// ---------------------------------------------------------------- large sizes
//
// Thresholds hide in code ("more than 16 rings", "above 64 members", "a buffer of 256 entries"): what is right for
// every small input can be wrong for every large one. With Big set the generators draw their counts - vertices of a
// line or ring, members of a Multi* or collection, holes of a polygon - from just above the usual powers of two, one
// large dimension at a time, on a lattice wide enough to hold them.

// bigCount: a count just above 8, 16, 32 or 64 (small ones more often: the specification's cost grows with it).
func (l *lgen) bigCount() int {
	base := []int{9, 9, 9, 17, 17, 17, 17, 33, 33, 65}[l.r.Intn(10)]
	return base + l.r.Intn(4)
}

func gcdInt(a, b int) int {
	if a < 0 {
		a = -a
	}
	if b < 0 {
		b = -b
	}
	for b != 0 {
		a, b = b, a%b
	}
	return a
}

// halfOf: 0 for directions in [0, pi), 1 for [pi, 2pi) - exact angular order without trigonometry.
func halfOf(dx, dy int) int {
	if dy > 0 || (dy == 0 && dx > 0) {
		return 0
	}
	return 1
}

// starRing: a simple closed ring with n vertices, star-shaped around (cx, cy): n distinct lattice directions in
// angular order, one vertex on each (at most rad away in the maximum norm). Returns nil when the lattice around the
// centre has too few directions or the directions leave a gap of half a turn or more.
func (l *lgen) starRing(cx, cy, rad, n int) []geom.XY {
	type dir struct{ dx, dy int }
	var prim []dir
	for dx := -rad; dx <= rad; dx++ {
		for dy := -rad; dy <= rad; dy++ {
			if (dx != 0 || dy != 0) && gcdInt(dx, dy) == 1 {
				prim = append(prim, dir{dx, dy})
			}
		}
	}
	if len(prim) < n {
		return nil
	}
	l.r.Shuffle(len(prim), func(i, j int) { prim[i], prim[j] = prim[j], prim[i] })
	ds := prim[:n]
	sort.Slice(ds, func(i, j int) bool {
		hi, hj := halfOf(ds[i].dx, ds[i].dy), halfOf(ds[j].dx, ds[j].dy)
		if hi != hj {
			return hi < hj
		}
		return ds[i].dx*ds[j].dy-ds[i].dy*ds[j].dx > 0
	})
	for i := range ds { // consecutive directions must turn left by less than half a turn
		a, b := ds[i], ds[(i+1)%n]
		if a.dx*b.dy-a.dy*b.dx <= 0 {
			return nil
		}
	}
	pts := make([]geom.XY, 0, n+1)
	for _, d := range ds {
		m := d.dx
		if m < 0 {
			m = -m
		}
		if e := d.dy; e > m {
			m = e
		} else if -e > m {
			m = -e
		}
		k := 1 + l.r.Intn(rad/m)
		pts = append(pts, geom.XY{X: float64(cx + k*d.dx), Y: float64(cy + k*d.dy)})
	}
	if l.r.Intn(2) == 0 {
		for i, j := 0, len(pts)-1; i < j; i, j = i+1, j-1 {
			pts[i], pts[j] = pts[j], pts[i]
		}
	}
	s := l.r.Intn(len(pts)) // any start vertex
	pts = append(pts[s:], pts[:s]...)
	return append(pts, pts[0])
}

// bigLineString: many vertices. Half of them wander (crossing themselves, as a long track does), half are monotone in X
// (simple).
func (l *lgen) bigLineString() geom.LineString {
	n := l.bigCount()
	pts := make([]geom.XY, n)
	if l.r.Intn(2) == 0 {
		for i := range pts {
			pts[i] = l.pt()
		}
	} else {
		for i := range pts {
			x, y := i*l.N/(n-1), l.r.Intn(l.N+1)
			if i > 0 && float64(x) == pts[i-1].X && float64(y) == pts[i-1].Y {
				y = (y + 1) % (l.N + 1)
			}
			pts[i] = geom.XY{X: float64(x), Y: float64(y)}
		}
	}
	ls := geom.NewLineString(seqOf(pts))
	if !genValid(ls) {
		return l.lineString()
	}
	return ls
}

// bigPolygon: one large dimension - a ring of many vertices, or many holes.
func (l *lgen) bigPolygon() geom.Polygon {
	for tries := 0; tries < 20; tries++ {
		var rings []geom.LineString
		if l.r.Intn(2) == 0 {
			rad := l.N / 2
			ring := l.starRing(rad, rad, rad, l.bigCount())
			if ring == nil {
				continue
			}
			rings = append(rings, geom.NewLineString(seqOf(ring)))
			if l.r.Intn(3) == 0 && rad >= 8 { // and a hole around the centre, of many vertices or few
				n := 3 + l.r.Intn(3)
				if l.r.Intn(2) == 0 {
					n = l.bigCount()
				}
				// the shell's vertices are at least one primitive step away from the centre; a hole strictly inside
				// the unit diamond of directions cannot be built on the lattice, so validity decides
				if h := l.starRing(rad, rad, 1+l.r.Intn(2), n); h != nil {
					rings = append(rings, geom.NewLineString(seqOf(h)))
				}
			}
		} else {
			rings = append(rings, boxRing(0, 0, l.N, l.N))
			c := 3 + l.r.Intn(4) // holes of any size up to their cell's, one unit inside it
			if l.N < 24 {
				c = 3 // a narrow lattice: small cells, or there is no room for many
			}
			cells := l.N / c
			nh := l.bigCount()
			if nh > cells*cells {
				nh = cells * cells
			}
			perm := l.r.Perm(cells * cells)[:nh]
			for _, k := range perm {
				x, y := c*(k%cells)+1, c*(k/cells)+1
				w := c - 2
				x0, y0 := x+l.r.Intn(w), y+l.r.Intn(w)
				x1, y1 := x0+1+l.r.Intn(x+w-x0), y0+1+l.r.Intn(y+w-y0)
				switch l.r.Intn(3) {
				case 0:
					rings = append(rings, boxRing(x0, y0, x1, y1))
				case 1:
					rings = append(rings, geom.NewLineString(seqOf([]geom.XY{{X: float64(x0), Y: float64(y0)}, {X: float64(x1), Y: float64(y0)}, {X: float64(x0), Y: float64(y1)}, {X: float64(x0), Y: float64(y0)}})))
				default: // reaches the corner of its cell: may touch a neighbour's hole in one point
					rings = append(rings, geom.NewLineString(seqOf([]geom.XY{{X: float64(x), Y: float64(y)}, {X: float64(x + c - 1), Y: float64(y + c - 1)}, {X: float64(x), Y: float64(y + 1)}, {X: float64(x), Y: float64(y)}})))
				}
			}
		}
		p := geom.NewPolygon(rings)
		if genValid(p) {
			return p
		}
	}
	return l.polygon()
}

func (l *lgen) bigMultiPoint() geom.MultiPoint {
	n := l.bigCount()
	if l.r.Intn(4) == 0 {
		n = 129 + l.r.Intn(4)
	}
	pts := make([]geom.Point, 0, n+1)
	if l.r.Intn(3) == 0 {
		for i := 0; i < n; i++ { // with repetitions
			pts = append(pts, l.pt().AsPoint())
		}
	} else { // n distinct positions (as many as the lattice has)
		for _, k := range l.r.Perm((l.N + 1) * (l.N + 1)) {
			if len(pts) == n {
				break
			}
			pts = append(pts, geom.XY{X: float64(k % (l.N + 1)), Y: float64(k / (l.N + 1))}.AsPoint())
		}
	}
	if l.r.Intn(5) == 0 {
		i := l.r.Intn(len(pts) + 1)
		pts = append(pts[:i], append([]geom.Point{{}}, pts[i:]...)...)
	}
	return geom.NewMultiPoint(pts)
}

// window: a generator for a small sub-lattice [ox, ox+side] x [oy, oy+side] of l's.
func (l *lgen) shifted(g geom.Geometry, ox, oy int) geom.Geometry {
	return g.TransformXY(func(p geom.XY) geom.XY { return geom.XY{X: p.X + float64(ox), Y: p.Y + float64(oy)} })
}

func (l *lgen) bigMultiLineString() geom.MultiLineString {
	n := l.bigCount()
	small := &lgen{r: l.r, N: 3}
	ls := make([]geom.LineString, 0, n+1)
	for i := 0; i < n; i++ {
		g := l.shifted(small.lineString().AsGeometry(), l.r.Intn(l.N-2), l.r.Intn(l.N-2))
		ls = append(ls, g.MustAsLineString())
	}
	if l.r.Intn(5) == 0 {
		i := l.r.Intn(len(ls) + 1)
		ls = append(ls[:i], append([]geom.LineString{{}}, ls[i:]...)...)
	}
	return geom.NewMultiLineString(ls)
}

// bigMultiPolygon: many members, one per cell of a grid (four units apart, so never touching), in any order.
func (l *lgen) bigMultiPolygon() geom.MultiPolygon {
	cells := l.N / 4
	n := l.bigCount()
	if n > cells*cells {
		n = cells * cells
	}
	small := &lgen{r: l.r, N: 3}
	ps := make([]geom.Polygon, 0, n+1)
	for _, c := range l.r.Perm(cells * cells)[:n] {
		g := l.shifted(small.polygon().AsGeometry(), 4*(c%cells), 4*(c/cells))
		ps = append(ps, g.MustAsPolygon())
	}
	if l.r.Intn(5) == 0 {
		i := l.r.Intn(len(ps) + 1)
		ps = append(ps[:i], append([]geom.Polygon{{}}, ps[i:]...)...)
	}
	mp := geom.NewMultiPolygon(ps)
	if !genValid(mp) {
		return l.multiPolygon()
	}
	return mp
}

// bigCollection: many small members of any type (they may overlap, as members of a collection may).
func (l *lgen) bigCollection() geom.Geometry {
	n := l.bigCount()
	small := &lgen{r: l.r, N: 3}
	gs := make([]geom.Geometry, 0, n)
	for i := 0; i < n; i++ {
		gs = append(gs, l.shifted(small.leaf(), l.r.Intn(l.N-2), l.r.Intn(l.N-2)))
	}
	return geom.NewGeometryCollection(gs).AsGeometry()
}

// bigLeaf: type t (0..5) with one large dimension. Points and lines are sometimes confined to a small window of the
// lattice: a dense cluster far from whatever else there is (nearest-neighbour structures see many close neighbours
// before the first distant one).
func (l *lgen) bigLeaf(t int) geom.Geometry {
	if (t == 0 || t == 1 || t == 3 || t == 4) && l.N >= 8 && l.r.Intn(3) == 0 {
		return l.clusteredLeaf(t)
	}
	switch t {
	case 0, 3:
		return l.bigMultiPoint().AsGeometry()
	case 1:
		return l.bigLineString().AsGeometry()
	case 2:
		return l.bigPolygon().AsGeometry()
	case 4:
		return l.bigMultiLineString().AsGeometry()
	}
	return l.bigMultiPolygon().AsGeometry()
}

// clusteredLeaf: points or lines (t = 0, 1, 3, 4) with one large dimension, confined to a small window of the lattice.
func (l *lgen) clusteredLeaf(t int) geom.Geometry {
	w := 4 + l.r.Intn(2)
	if l.N >= 12 {
		w = 5 + l.r.Intn(4)
	}
	sub := &lgen{r: l.r, N: w, Big: true}
	return l.shifted(sub.bigLeaf(t), l.r.Intn(l.N-w+1), l.r.Intn(l.N-w+1))
}

// bigAny: any type with one large dimension.
func (l *lgen) bigAny() geom.Geometry {
	if l.r.Intn(7) == 0 {
		return l.bigCollection()
	}
	return l.bigLeaf(l.r.Intn(6))
}

// bigExtra: how many large-size cases follow the n ordinary ones.
func bigExtra(n int) int {
	if n > 16000 { // the thorough tier: large cases cost the specification ten times what the others do
		return 2002 + (n-16000)/40
	}
	return 2 + n/8
}

func bigLattice(r *rand.Rand) *lgen { return &lgen{r: r, N: 16 + r.Intn(25), Big: true} }

// bigLatticeTo: the same with the side limited to lo..hi - the specifications that build the arrangement of two
// geometries work with the sixth power of the side, and TLC's integers have 32 bits.
func bigLatticeTo(r *rand.Rand, lo, hi int) *lgen {
	return &lgen{r: r, N: lo + r.Intn(hi-lo+1), Big: true}
}

// spanBox: a rectangle over (nearly) the whole lattice, its ring starting at any corner in either orientation.
func (l *lgen) spanBox() geom.Polygon {
	in := l.r.Intn(3)
	lo, hi := float64(in), float64(l.N-in)
	cs := []geom.XY{{X: lo, Y: lo}, {X: hi, Y: lo}, {X: hi, Y: hi}, {X: lo, Y: hi}}
	if l.r.Intn(2) == 0 {
		cs[1], cs[3] = cs[3], cs[1]
	}
	k := l.r.Intn(4)
	cs = append(cs[k:], cs[:k]...)
	return geom.NewPolygon([]geom.LineString{geom.NewLineString(seqOf(append(cs, cs[0])))})
}

// bigPair: two operands on a wide lattice, at least one of them with a large dimension; the other one large too, or
// a rectangle around (nearly) everything, or an ordinary small geometry somewhere on the lattice.
func (l *lgen) bigPair() (a, b geom.Geometry) {
	a = l.bigLeaf(l.r.Intn(6))
	if l.N >= 8 && l.r.Intn(4) == 0 { // many components close together, well inside one ring of the other operand
		a, b = l.clusteredLeaf([]int{3, 3, 4, 1}[l.r.Intn(4)]), l.spanBox().AsGeometry()
		if l.r.Intn(2) == 0 {
			a, b = b, a
		}
		return a, b
	}
	switch l.r.Intn(4) {
	case 0:
		b = l.bigLeaf(l.r.Intn(6))
	case 1, 2:
		b = l.spanBox().AsGeometry()
	default:
		b = l.any(5)
	}
	if l.r.Intn(2) == 0 {
		a, b = b, a
	}
	return a, b
}
