// sfdrive: drivers that call the real library and record ndjson events for TLC.
//
//	sfdrive record <family> -seed S -n N -tier quick|thorough   generate cases, execute, write events
//	sfdrive one <family>                                         read cases (ndjson, stdin), execute, write events
//
// Every event carries "repro" (the case as a JSON string, opaque to TLC), "h" (case hash),
// "nt" (non-trivial by the family's rule) and "panic" ("" unless the call panicked).
package main

import (
	"bufio"
	"crypto/sha256"
	"encoding/hex"
	"encoding/json"
	"flag"
	"fmt"
	"math/rand"
	"os"
	"runtime/debug"
	"strconv"
	"time"
)

type Case map[string]interface{}
type Event map[string]interface{}

type Family struct {
	// Gen emits n cases (more or fewer is fine) for the tier.
	Gen func(r *rand.Rand, n int, tier string, emit func(Case))
	// Exec runs the real code on one case and describes what happened.
	Exec func(c Case) Event
	// OnPanic fills the fields a trace spec reads before it looks at "panic" (optional).
	OnPanic func(c Case) Event
	// Isolated families execute every case in a sacrificial child process (address-space limit, timeout):
	// a crash or hang of the library is an observed outcome, not the end of the recording.
	Isolated bool
}

var families = map[string]*Family{}

func register(name string, f *Family) { families[name] = f }

func execSafe(f *Family, c Case) (ev Event) {
	defer func() {
		if r := recover(); r != nil {
			ev = Event{}
			if f.OnPanic != nil {
				ev = f.OnPanic(c)
			}
			ev["panic"] = fmt.Sprintf("%v", r)
			ev["stack"] = string(debug.Stack())
		}
	}()
	ev = f.Exec(c)
	if _, ok := ev["panic"]; !ok {
		ev["panic"] = ""
	}
	return ev
}

func finish(ev Event, c Case) []byte {
	cb, err := json.Marshal(c)
	if err != nil {
		panic(err)
	}
	sum := sha256.Sum256(cb)
	ev["repro"] = string(cb)
	ev["h"] = hex.EncodeToString(sum[:8])
	if _, ok := ev["nt"]; !ok {
		ev["nt"] = true
	}
	checkInts(ev)
	b, err := json.Marshal(ev)
	if err != nil {
		panic(err)
	}
	return b
}

// checkInts enforces what may cross the JSON boundary into TLC (DESIGN.md section 3):
// only integers below 2^31 in magnitude, no floats, no null.
func checkInts(v interface{}) {
	switch x := v.(type) {
	case nil:
		panic("null in event")
	case float64, float32:
		panic(fmt.Sprintf("float in event: %v", x))
	case int:
		if x >= 1<<31 || x <= -(1<<31) {
			panic(fmt.Sprintf("int out of TLC range in event: %d", x))
		}
	case int64:
		if x >= 1<<31 || x <= -(1<<31) {
			panic(fmt.Sprintf("int out of TLC range in event: %d", x))
		}
	case Event:
		for _, e := range x {
			checkInts(e)
		}
	case map[string]interface{}:
		for _, e := range x {
			checkInts(e)
		}
	case []interface{}:
		for _, e := range x {
			checkInts(e)
		}
	case []int:
		for _, e := range x {
			checkInts(e)
		}
	case [][]int:
		for _, e := range x {
			checkInts(e)
		}
	case [][][]int:
		for _, e := range x {
			checkInts(e)
		}
	case [][][][]int:
		for _, e := range x {
			checkInts(e)
		}
	case []Event:
		for _, e := range x {
			checkInts(e)
		}
	case []map[string]interface{}:
		for _, e := range x {
			checkInts(e)
		}
	case *flat:
		checkInts(x.Pts)
		checkInts(x.Lines)
		checkInts(x.Areas)
	case []*flat:
		for _, e := range x {
			checkInts(e)
		}
	}
}

func main() {
	if len(os.Args) < 3 {
		fmt.Fprintln(os.Stderr, "usage: sfdrive record|one <family> [flags]")
		os.Exit(2)
	}
	mode, fam := os.Args[1], os.Args[2]
	f := families[fam]
	if f == nil {
		fmt.Fprintln(os.Stderr, "unknown family", fam)
		os.Exit(2)
	}
	fs := flag.NewFlagSet(mode, flag.ExitOnError)
	seed := fs.Int64("seed", 1, "")
	n := fs.Int("n", 1000, "")
	tier := fs.String("tier", "quick", "")
	noEarly := fs.Bool("noearly", false, "never stop early (confirmation runs)")
	fs.Parse(os.Args[3:])
	w := bufio.NewWriterSize(os.Stdout, 1<<20)
	defer w.Flush()
	// A call into the library that does not return is an observation too: every case runs in its own goroutine and is
	// given VERIF_CASE_TIMEOUT_S seconds (default 120; ordinary cases take milliseconds). A case that has not returned
	// by then is reported as a "hang" (the goroutine is abandoned and keeps one core busy until the process exits);
	// after three of them the recording stops and what was recorded is judged.
	caseTimeout := 120 * time.Second
	if v, err := strconv.Atoi(os.Getenv("VERIF_CASE_TIMEOUT_S")); err == nil && v > 0 {
		caseTimeout = time.Duration(v) * time.Second
	}
	hangs := 0
	exec := func(c Case) Event {
		curHist = 0
		if _, ok := c["hist"]; ok {
			curHist = c.num("hist")
		}
		ch := make(chan Event, 1)
		go func() { ch <- execSafe(f, c) }()
		select {
		case ev := <-ch:
			return ev
		case <-time.After(caseTimeout):
			hangs++
			ev := Event{}
			if f.OnPanic != nil {
				ev = f.OnPanic(c)
			}
			ev["panic"] = fmt.Sprintf("hang: the call did not return within %v", caseTimeout)
			return ev
		}
	}
	stopEarly := func() bool { return !*noEarly && hangs >= 3 }
	if f.Isolated && mode != "worker" {
		iso := &isolator{fam: fam}
		defer iso.stop()
		exec = func(c Case) Event { return iso.exec(f, c) }
		// a defect that makes inputs slow (huge allocations, long loops) must not make the check run for hours:
		// after the budget (or too many killed workers) the recording stops; what was recorded is still judged
		budget := 240 * time.Second
		if v, err := strconv.Atoi(os.Getenv("VERIF_DRIVE_BUDGET_S")); err == nil && v > 0 {
			budget = time.Duration(v) * time.Second
		}
		t0 := time.Now()
		stopEarly = func() bool { return !*noEarly && (iso.deaths >= maxDeaths || time.Since(t0) > budget) }
	}
	switch mode {
	case "worker":
		workerMain(f)
	case "record":
		// The generators use the library too (constructors, AsText, marshalling of corpus entries). If the library
		// panics there, the generator is restarted with a derived seed for the cases still missing (at most five times):
		// a defect outside the operation under test must not leave the family without a verdict.
		emitted := 0
		for attempt := 0; attempt < 6 && emitted < *n; attempt++ {
			func() {
				defer func() {
					if rec := recover(); rec != nil {
						fmt.Fprintf(os.Stderr, "generator of family %s panicked (attempt %d): %v\n", fam, attempt, rec)
					}
				}()
				r := rand.New(rand.NewSource(*seed + int64(attempt)*1000003))
				f.Gen(r, *n-emitted, *tier, func(c Case) {
					if stopEarly() {
						return
					}
					c = normalize(c)
					w.Write(finish(exec(c), c))
					w.WriteByte('\n')
					emitted++
				})
				emitted = *n // the generator returned normally
			}()
		}
	case "one":
		sc := bufio.NewScanner(os.Stdin)
		sc.Buffer(make([]byte, 1<<20), 1<<28)
		for sc.Scan() {
			if len(sc.Bytes()) == 0 {
				continue
			}
			if stopEarly() {
				break
			}
			c, err := decodeCase(sc.Bytes())
			if err != nil {
				fmt.Fprintln(os.Stderr, "bad case:", err)
				os.Exit(2)
			}
			w.Write(finish(exec(c), c))
			w.WriteByte('\n')
		}
	default:
		fmt.Fprintln(os.Stderr, "unknown mode", mode)
		os.Exit(2)
	}
}
