package main

import (
	"math"
	"math/rand"

	"github.com/peterstace/simplefeatures/geom"
)

// Family "dist" (C09): Intersects / Disjoint / Intersection emptiness / Distance.
//
// kind "pair": event a, b, inter, disjoint, inonempty, ierr, dok, dzero, dn = floor(d*128) in the lattice frame,
//              sym ("" or what differs between (a,b) and (b,a)), gp
// kind "tri":  three geometries; nab, nbc, nac = floor(d*128), nbd = floor(diam(b)*128)

func scaleOf(c Case) float64 {
	if t := c.list("t"); t != nil {
		return hexFloat(t[0])
	}
	if t := c.list("rot"); t != nil {
		return hexFloat(t[1])
	}
	return 1
}

// longLine: a zig-zag with many segments so that nearest features sit deep in the R-tree.
func (l *lgen) longLine() geom.LineString {
	n := 30 + l.r.Intn(30)
	pts := make([]geom.XY, 0, n)
	for i := 0; i < n; i++ {
		pts = append(pts, l.pt())
	}
	return geom.NewLineString(seqOf(pts))
}

func distGen(r *rand.Rand, n int, tier string, emit func(Case)) {
	// F23 (fixed): two lines leaving a shared vertex in opposite directions along one line, under a general-position map
	// for which the library's independently rounded orientation tests disagreed; kept so that it stays fixed
	for _, w := range [][2]string{{"MULTILINESTRING((1 1,0 0,0 2),EMPTY)", "LINESTRING(1 1,2 2,1 2,1 2)"}, {"LINESTRING(1 1,2 2)", "LINESTRING(1 1,0 0)"}} {
		for _, sw := range []bool{false, true} {
			a, b := w[0], w[1]
			if sw {
				a, b = b, a
			}
			emit(Case{"N": 5, "kind": "pair", "wa": a, "wb": b,
				"rot": []interface{}{"4017598969e4dda7", "404ce58987364266", "c076edb31e588b3e", "c05377cbb074f294"}})
		}
	}
	for i := 0; i < n; i++ {
		l := &lgen{r: r, N: 3 + r.Intn(6)}
		mk := 0
		switch r.Intn(8) {
		case 0, 1:
			mk = 1
		case 2:
			mk = 2
		case 3:
			mk = 3
		}
		if i%25 == 24 {
			a, b, c3 := l.any(6), l.any(6), l.any(6)
			if a.IsEmpty() || b.IsEmpty() || c3.IsEmpty() {
				continue
			}
			c := pairCase(l, a, b, mk)
			c["kind"], c["wc"] = "tri", c3.AsText()
			emit(c)
			continue
		}
		var a, b geom.Geometry
		switch {
		case i < 49:
			ta, tb := i/7, i%7
			a, b = l.collection(0), l.collection(0)
			if ta < 6 {
				a = l.leafOfType(ta)
			}
			if tb < 6 {
				b = l.leafOfType(tb)
			}
		case i%10 == 5:
			// many parts, one of them the point at the origin (the R-tree's degenerate all-zero box), spread out so that
			// the bulk-loaded tree has several leaves; the other operand is near one of the parts
			l.N = 8
			pts := []geom.Point{geom.XY{}.AsPoint()}
			for k, m := 0, 4+r.Intn(8); k < m; k++ {
				pts = append(pts, l.pt().AsPoint())
			}
			r.Shuffle(len(pts), func(x, y int) { pts[x], pts[y] = pts[y], pts[x] })
			a = geom.NewMultiPoint(pts).AsGeometry()
			if r.Intn(3) == 0 {
				a = geom.NewGeometryCollection([]geom.Geometry{a, l.lineString().AsGeometry()}).AsGeometry()
			}
			b = l.pt().AsPoint().AsGeometry()
			if r.Intn(2) == 0 {
				b = l.any(6)
			}
			if r.Intn(2) == 0 {
				a, b = b, a
			}
		case i%10 == 0:
			a, b = l.longLine().AsGeometry(), l.any(6)
			if r.Intn(2) == 0 {
				a, b = b, a
			}
		default:
			a, b = l.any(5), l.any(5)
		}
		c := pairCase(l, a, b, mk)
		c["kind"] = "pair"
		emit(c)
	}
	for i := 0; i < bigExtra(n); i++ { // large sizes
		l := bigLatticeTo(r, 8, 8) // the distance comparison's arithmetic allows no wider lattice (DESIGN 4.4)
		a, b := l.bigPair()
		c := pairCase(l, a, b, []int{0, 0, 0, 1, 2, 3}[r.Intn(6)])
		c["kind"] = "pair"
		emit(c)
	}
}

func distOnPanic(c Case) Event {
	_, gp := mapOf(c)
	return Event{"kind": c.str("kind"), "a": []*flat{}, "b": []*flat{}, "gp": gp, "inter": false, "disjoint": false,
		"inonempty": false, "ierr": "", "dok": false, "dzero": false, "dn": 0, "sym": "",
		"nab": 0, "nbc": 0, "nac": 0, "nbd": 0}
}

func floor128(d, s float64) int {
	v := math.Floor(d / s * 128)
	// distances on these lattices are below 2^12 units; a NaN or an infinite / huge value is itself the observation and
	// is reported as a negative sentinel, which the specification rejects by value
	if math.IsNaN(v) {
		return -1
	}
	if math.Abs(v) >= 1<<20 {
		return -2
	}
	return int(v)
}

func distExec(c Case) Event {
	ev := distOnPanic(c)
	a0, b0 := mustWKT(c.str("wa")), mustWKT(c.str("wb"))
	f, _ := mapOf(c)
	s := scaleOf(c)
	a, b := imageOf(a0, f), imageOf(b0, f)
	ev["a"], ev["b"] = parts(a0), parts(b0)
	if c.str("kind") == "tri" {
		c0 := mustWKT(c.str("wc"))
		cc := imageOf(c0, f)
		dab, _ := geom.Distance(a, b)
		dbc, _ := geom.Distance(b, cc)
		dac, _ := geom.Distance(a, cc)
		// diameter of b: largest distance between two control points
		seq := b.DumpCoordinates()
		var dm float64
		for i := 0; i < seq.Length(); i++ {
			for j := i + 1; j < seq.Length(); j++ {
				p, q := seq.GetXY(i), seq.GetXY(j)
				dm = math.Max(dm, math.Hypot(p.X-q.X, p.Y-q.Y))
			}
		}
		ev["nab"], ev["nbc"], ev["nac"], ev["nbd"] = floor128(dab, s), floor128(dbc, s), floor128(dac, s), floor128(dm, s)
		return ev
	}
	inter, inter2 := geom.Intersects(a, b), geom.Intersects(b, a)
	ev["inter"] = inter
	dj, err := geom.Disjoint(a, b)
	if err != nil {
		panic(err)
	}
	ev["disjoint"] = dj
	in, err := geom.Intersection(a, b)
	if err != nil {
		ev["ierr"] = errStr(err)
	} else {
		ev["inonempty"] = !in.IsEmpty()
	}
	d, ok := geom.Distance(a, b)
	d2, ok2 := geom.Distance(b, a)
	ev["dok"] = ok
	if ok {
		ev["dzero"] = d == 0
		ev["dn"] = floor128(d, s)
	}
	switch {
	case inter != inter2:
		ev["sym"] = "intersects"
	case ok != ok2:
		ev["sym"] = "distance-defined"
	case ok && math.Float64bits(d) != math.Float64bits(d2):
		ev["sym"] = "distance-bits"
	}
	ev["nt"] = len(ev["a"].([]*flat)) > 0 && len(ev["b"].([]*flat)) > 0
	return ev
}

func init() {
	register("dist", &Family{Gen: distGen, Exec: distExec, OnPanic: distOnPanic})
}
