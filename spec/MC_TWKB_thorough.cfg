SPECIFICATION Spec
CONSTANT AllPrefixes = TRUE
INVARIANT Inv NoOverrun
CHECK_DEADLOCK FALSE
