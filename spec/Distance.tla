------------------------------ MODULE Distance ------------------------------
(* C09: exact squared distance between two lattice geometries as a rational  *)
(* <<num,den>>, and the conditions a logged float distance must satisfy.     *)
EXTENDS DE9IM

RLe(a,b) == a[1]*b[2] <= b[1]*a[2]
RMin(S) == CHOOSE x \in S : \A y \in S : RLe(x,y)
D2PP(p,q) == <<(p[1]-q[1])*(p[1]-q[1]) + (p[2]-q[2])*(p[2]-q[2]), 1>>
D2PS(p,s) == LET a == s[1] b == s[2]
                 dx == b[1]-a[1] dy == b[2]-a[2]
                 t == (p[1]-a[1])*dx + (p[2]-a[2])*dy
                 len == dx*dx+dy*dy
             IN IF t <= 0 THEN D2PP(p,a) ELSE IF t >= len THEN D2PP(p,b)
                ELSE LET c == Cross(dx,dy,p[1]-a[1],p[2]-a[2]) IN <<c*c, len>>
D2SS(s,t) == RMin({D2PS(s[1],t), D2PS(s[2],t), D2PS(t[1],s), D2PS(t[2],s)})
\* minimum over all (point|segment) x (point|segment) pairs; valid when the geometries are disjoint
D2(ga,gb) == LET PA == PtSet(ga) \cup UNION {SeqSet(ga.lines[i]) : i \in 1..Len(ga.lines)}
                 PB == PtSet(gb) \cup UNION {SeqSet(gb.lines[i]) : i \in 1..Len(gb.lines)}
                 SA == AllSegs(ga) SB == AllSegs(gb) IN
   RMin( {D2PP(p,q) : p \in PA, q \in PB} \cup {D2PS(p,s) : p \in PA, s \in SB}
         \cup {D2PS(q,s) : q \in PB, s \in SA} \cup {D2SS(s,t) : s \in SA, t \in SB})

MinS(S) == CHOOSE x \in S : \A y \in S : x <= y
MaxS(S) == CHOOSE x \in S : \A y \in S : x >= y
\* envelope of a non-empty flat as <<minx,miny,maxx,maxy>>
EnvOf(g) == LET P == CtrlPts(g) IN <<MinS({p[1] : p \in P}), MinS({p[2] : p \in P}), MaxS({p[1] : p \in P}), MaxS({p[2] : p \in P})>>
BoxD2(a,b) == LET dx == Max2(0, Max2(a[1]-b[3], b[1]-a[3])) dy == Max2(0, Max2(a[2]-b[4], b[2]-a[4])) IN dx*dx+dy*dy
\* largest squared distance between two control points
Diam2(g) == LET P == CtrlPts(g) IN MaxS({D2PP(p,q)[1] : p \in P, q \in P})

\* n = floor(d * 128) logged for the float d:  (n-1)^2/2^14 <= D2 <= (n+2)^2/2^14
DistOK(n, d2) == (n-1)*(n-1)*d2[2] <= d2[1]*16384 /\ d2[1]*16384 <= (n+2)*(n+2)*d2[2]
=============================================================================
