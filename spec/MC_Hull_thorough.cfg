SPECIFICATION Spec
CONSTANTS
  Side = 3
  MaxPts = 7
INVARIANT ChainIsHull HullCovers
CHECK_DEADLOCK FALSE
