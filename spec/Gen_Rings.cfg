SPECIFICATION Spec
CONSTANTS
  MinK = 3
  MaxK = 5
  Step = 3
CHECK_DEADLOCK FALSE
