------------------------------ MODULE PointSet ------------------------------
(* The point set of a flattened geometry                                     *)
(*   g = [pts: Seq(P), lines: Seq(Seq(P)), areas: Seq(Seq(Seq(P)))]          *)
(* and the arrangement of two of them (DESIGN.md 4.1).                       *)
EXTENDS Lattice

EmptyFlat == [pts |-> <<>>, lines |-> <<>>, areas |-> <<>>]
LineSegs(g) == UNION {SegsOfLine(g.lines[i]) : i \in 1..Len(g.lines)}
AreaSegsOf(poly) == UNION {SegsOfLine(poly[i]) : i \in 1..Len(poly)}
AreaSegs(g) == UNION {AreaSegsOf(g.areas[i]) : i \in 1..Len(g.areas)}
AllSegs(g) == LineSegs(g) \cup AreaSegs(g)
PtSet(g) == {g.pts[i] : i \in 1..Len(g.pts)}
IsEmptyG(g) == Len(g.pts) = 0 /\ Len(g.lines) = 0 /\ Len(g.areas) = 0
DimG(g) == IF Len(g.areas) > 0 THEN 2 ELSE IF Len(g.lines) > 0 THEN 1 ELSE IF Len(g.pts) > 0 THEN 0 ELSE -1
CtrlPts(g) == PtSet(g) \cup UNION {SeqSet(g.lines[i]) : i \in 1..Len(g.lines)}
              \cup UNION {UNION {SeqSet(g.areas[i][k]) : k \in 1..Len(g.areas[i])} : i \in 1..Len(g.areas)}

\* mod-2 rule: a point is on the lineal boundary iff it is an end point of an odd number of open linestrings
IsOpenLine(ls) == Len(ls) > 0 /\ ls[1] # ls[Len(ls)]
EndCount(g,p) == Cardinality({i \in 1..Len(g.lines) : IsOpenLine(g.lines[i]) /\ g.lines[i][1] = p})
               + Cardinality({i \in 1..Len(g.lines) : IsOpenLine(g.lines[i]) /\ g.lines[i][Len(g.lines[i])] = p})
LineEnds(g) == UNION {{g.lines[i][1], g.lines[i][Len(g.lines[i])]} : i \in {j \in 1..Len(g.lines) : Len(g.lines[j]) > 0}}
LineBoundary(g) == {p \in LineEnds(g) : EndCount(g,p) % 2 = 1}

\* half-open crossing rule for a leftward horizontal ray from the homogeneous point p
CrossesRay(s,p) == LET lo == IF s[1][2] <= s[2][2] THEN s[1] ELSE s[2]
                       hi == IF s[1][2] <= s[2][2] THEN s[2] ELSE s[1]
                   IN lo[2]*p[3] <= p[2] /\ p[2] < hi[2]*p[3] /\ OrientH(lo,hi,p) = -1
InsidePoly(poly,p) == Cardinality({s \in AreaSegsOf(poly) : CrossesRay(s,p)}) % 2 = 1

LocPoly(poly,p) == IF \E s \in AreaSegsOf(poly) : OnSegH(s,p) THEN "B"
                   ELSE IF InsidePoly(poly,p) THEN "I" ELSE "E"
LocArea(g,p) == IF \E s \in AreaSegs(g) : OnSegH(s,p) THEN "B"
                ELSE IF \E i \in 1..Len(g.areas) : InsidePoly(g.areas[i],p) THEN "I" ELSE "E"
LocLine(g,p) == IF p[3] = 1 /\ <<p[1],p[2]>> \in LineBoundary(g) THEN "B"
                ELSE IF \E s \in LineSegs(g) : OnSegH(s,p) THEN "I"
                ELSE IF p[3] = 1 /\ \E i \in 1..Len(g.lines) : <<p[1],p[2]>> \in SeqSet(g.lines[i]) THEN "I" ELSE "E"
LocPt(g,p) == IF p[3] = 1 /\ <<p[1],p[2]>> \in PtSet(g) THEN "I" ELSE "E"
Loc(g,p) == LET la == LocArea(g,p) IN IF la # "E" THEN la
            ELSE LET ll == LocLine(g,p) IN IF ll # "E" THEN ll ELSE LocPt(g,p)
\* union semantics (members of a collection may overlap): is p in the point set at all
\* (for a union of polygons a ring point of one member may be interior to another: still a member)
InG(g,p) == Loc(g,p) # "E"

\* ray from the homogeneous point m in lattice direction n: strictly forward crossing of segment s,
\* with the side-of-line half-open rule (a ray through a ring vertex or along a ring edge comes out right)
RayCross(m,n,s) ==
  LET a == s[1] b == s[2]
      sa == Cross(n[1],n[2], a[1]*m[3]-m[1], a[2]*m[3]-m[2])
      sb == Cross(n[1],n[2], b[1]*m[3]-m[1], b[2]*m[3]-m[2])
  IN IF (sa < 0) = (sb < 0) THEN FALSE
     ELSE LET num == Cross(a[1]*m[3]-m[1], a[2]*m[3]-m[2], b[1]-a[1], b[2]-a[2])
              den == Cross(n[1],n[2], b[1]-a[1], b[2]-a[2])
          IN Sgn(num)*Sgn(den) > 0
FaceInPoly(poly,m,n) == Cardinality({s \in AreaSegsOf(poly) : RayCross(m,n,s)}) % 2 = 1
FaceInArea(g,m,n) == \E i \in 1..Len(g.areas) : FaceInPoly(g.areas[i],m,n)
FaceLoc(g,m,n) == IF FaceInArea(g,m,n) THEN "I" ELSE "E"

Dir(s) == <<s[2][1]-s[1][1], s[2][2]-s[1][2]>>
NL(s) == <<-(s[2][2]-s[1][2]), s[2][1]-s[1][1]>>
NR(s) == <<s[2][2]-s[1][2], -(s[2][1]-s[1][1])>>

\* arrangement of all segments and points of two geometries:
\* V = vertices (homogeneous), E = edges [u,v,s] with s the carrying input segment
Arrangement(ga,gb) ==
  LET S == AllSegs(ga) \cup AllSegs(gb)
      V0 == {H(p) : p \in CtrlPts(ga) \cup CtrlPts(gb)}
      V == V0 \cup UNION {SegInter(s,t) : s \in S, t \in S}
      OnS(s) == {p \in V : OnSegH(s,p)}
      EdgesOf(s) == LET P == OnS(s) IN
           {<<p,q>> \in P \X P : Before(s,p,q) /\ ~\E r \in P : Before(s,p,r) /\ Before(s,r,q)}
      E == UNION {{[u |-> e[1], v |-> e[2], s |-> s] : e \in EdgesOf(s)} : s \in S}
  IN [V |-> V, E |-> E, S |-> S]

\* general position (DESIGN.md 4.4): the only exact degeneracies are shared input vertices
GeneralPosition(ga,gb) ==
  LET S == AllSegs(ga) \cup AllSegs(gb)
      P == CtrlPts(ga) \cup CtrlPts(gb)
  IN /\ \A s \in S : \A p \in P : OnSegH(s,H(p)) => p = s[1] \/ p = s[2]
     /\ \A s \in S : \A t \in S : s # t /\ <<s[2],s[1]>> # t => ~Overlap1D(s,t)
     /\ \A s \in S : \A t \in S : \A x \in SegInter(s,t) :
            x[3] # 1 => \A u \in S : OnSegH(u,x) => u \in {s, t, <<s[2],s[1]>>, <<t[2],t[1]>>}
=============================================================================
