SPECIFICATION Spec
CONSTANTS
  Threads <- MCThreads
  Values <- MCValues
  Ops <- MCOps
  Digests <- MCDigests
INVARIANT MemoFunctional NoStuck
PROPERTY StoreConstant
CHECK_DEADLOCK FALSE
