SPECIFICATION Spec
CONSTANT N = 2
INVARIANTS TransposeLaw PredLaws DimLaw DistLaws AreaLaws BoundaryLaws ValidityLaws
CHECK_DEADLOCK FALSE
