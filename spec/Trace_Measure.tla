----------------------------- MODULE Trace_Measure -----------------------------
(* Trace validation for C14: Area, signed Area, Area with a transform,        *)
(* Length and Centroid of the real library against Measures.tla.             *)
EXTENDS Measures, Validity, Json, IOUtils

Trace == ndJsonDeserialize(IOEnv.VTRACE)
S == 64
VARIABLES sh, l
vars == <<sh, l>>

\* e.slen / e.scen: the error the property grants (1e-9 of the coordinate magnitude) in the units of the recorded length
\* (1/256 lattice unit) and centroid (1/1024); zero unless the image is a tiny one at a large offset
InSpanS(g,k,n,s) == LET V == Ords(g, k) IN (\E v \in V : 1024 * v <= n + 2 + s) /\ (\E v \in V : n - 2 - s <= 1024 * v)
CNearS(n,num,den,s) == Abs(n*den - num*1024) <= (2 + s)*Abs(den)
CheckCentroid(e,g) ==
  IF IsEmptyG(g) THEN (IF e.cempty THEN "ok" ELSE "centroid-nonempty-for-empty")
  ELSE IF e.cempty THEN "centroid-empty"
  ELSE IF ~(InSpanS(g, 1, e.cx, e.scen) /\ InSpanS(g, 2, e.cy, e.scen)) THEN "centroid-outside-the-span-of-the-vertices"
  ELSE LET c == IF Len(g.areas) > 0 THEN ArealCentroid(g)
                ELSE IF Len(g.lines) > 0 THEN (IF LinealExact(g) THEN LinealCentroid(g) ELSE <<0,0,0>>)
                ELSE PointCentroid(g) IN
       IF c[3] = 0 THEN (IF e.scen = 0 /\ Len(g.areas) = 0 /\ Len(g.lines) > 0 /\ ~(LinealBracket(g, 1, e.cx) /\ LinealBracket(g, 2, e.cy))
                         THEN "centroid-outside-bracket" ELSE "ok")
       ELSE IF CNearS(e.cx, c[1], c[3], e.scen) /\ CNearS(e.cy, c[2], c[3], e.scen) THEN "ok" ELSE "centroid-value"

\* A valid triangle k ulps wide (fam_sliver.go): exact centroid (a + k*ulp/3, y0 + h/3); the event carries the
\* deviation from (a, y0 + h/3) in ulps of a, and 1e-9 * a is 4503599 ulps of a = 2^e.
Tol == 4503599
CheckSliver(e) ==
  IF e.panic # "" THEN "panic"
  ELSE IF ~e.areafin THEN "sliver-area-not-finite"
  ELSE IF e.cempty THEN "centroid-empty"
  ELSE IF ~e.fin THEN "sliver-centroid-not-finite"
  ELSE IF Abs(3*e.dxu - e.k) > 3*Tol \/ Abs(e.dyu) > Tol THEN "sliver-centroid-value"
  ELSE "ok"

Check(e) ==
  IF "kind" \in DOMAIN e THEN CheckSliver(e) ELSE
  IF e.panic # "" THEN "panic"
  ELSE IF ~PartsValid(e.g) THEN "skip:invalid"
  ELSE LET g == Merge(e.g) IN
  IF ~e.noarea /\ e.area2 # Area2(g) THEN "area"
  ELSE IF ~e.noarea /\ Orient(g) # 0 /\ e.sarea2 # Orient(g)*Area2(g) THEN "signed-area"
  ELSE IF ~e.noarea /\ e.area2t # e.ts*e.ts*Area2(g) THEN "area-with-transform"
  ELSE IF ~e.noarea /\ (e.rev[2] # -e.rev[1] \/ e.rev[3] # e.rev[1]) THEN "signed-area-under-reverse"
  \* (in a general-position float image a length that is an exact multiple of 1/256 may come out one unit lower)
  ELSE IF ~(LenLo(g) - (IF e.gp THEN 1 ELSE 0) - e.slen <= e.lenn /\ e.lenn <= LenHi(g) + e.slen) THEN "length"
  ELSE CheckCentroid(e,g)

Init == sh \in 1..S /\ l = sh
Next == /\ l <= Len(Trace) /\ l' = l + S /\ sh' = sh
        /\ LET r == Check(Trace[l]) IN IF r = "ok" THEN TRUE ELSE PrintT(ToJson([k |-> "V", l |-> l, r |-> r]))
Spec == Init /\ [][Next]_vars
Done == PrintT(ToJson([k |-> "DONE", distinct |-> TLCGet("distinct"), want |-> Len(Trace) + S]))
=============================================================================
