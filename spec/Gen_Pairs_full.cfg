SPECIFICATION Spec
CONSTANTS
  N = 2
  Kinds = {"p","s","t","l","m","q","c"}
CHECK_DEADLOCK FALSE
