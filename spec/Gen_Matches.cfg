SPECIFICATION Spec
CONSTANT Step = 16
CHECK_DEADLOCK FALSE
