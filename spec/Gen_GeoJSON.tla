----------------------------- MODULE Gen_GeoJSON -----------------------------
(* (G) for C06: GeoJSON documents from a grammar - positions of length 0..5,   *)
(* mixed dimensions, unknown types, missing members, "NULL" placeholders that   *)
(* the driver turns into null - rendered to JSON text by TLC and fed to the     *)
(* real UnmarshalGeoJSON and to json.Unmarshal into every concrete type.        *)
EXTENDS Integers, Sequences, TLC, Json
Pos(n,k) == [i \in 1..n |-> k + i]
Lens == 0..5
VARIABLES ph, st
Init == ph = "start" /\ st = <<>>
Pick == ph = "start" /\ ph' = "mid" /\ \E a \in Lens, b \in Lens : st' = <<a,b>>
Emit == /\ ph = "mid" /\ ph' = "case"
        /\ \E kind \in 1..14 :
             LET p == Pos(st[1],0) q == Pos(st[2],3)
                 doc == CASE kind = 1 -> [type |-> "Point", coordinates |-> p]
                          [] kind = 2 -> [type |-> "LineString", coordinates |-> <<p, q>>]
                          [] kind = 3 -> [type |-> "Polygon", coordinates |-> << <<p, q, Pos(st[1],7), p>> >>]
                          [] kind = 4 -> [type |-> "MultiPoint", coordinates |-> <<p, q>>]
                          [] kind = 5 -> [type |-> "MultiLineString", coordinates |-> << <<p, q>>, <<q, p>> >>]
                          [] kind = 6 -> [type |-> "MultiPolygon", coordinates |-> << << <<p, q, Pos(st[2],7), p>> >> >>]
                          [] kind = 7 -> [type |-> "GeometryCollection", geometries |-> <<[type |-> "Point", coordinates |-> p], [type |-> "LineString", coordinates |-> <<q, q>>]>>]
                          [] kind = 8 -> [type |-> "GeometryCollection", geometries |-> <<[type |-> "Point", coordinates |-> <<>>], [type |-> "MultiPoint", coordinates |-> <<p, q>>]>>]
                          [] kind = 9 -> [type |-> "Pointy", coordinates |-> p]
                          [] kind = 10 -> [type |-> "Point"]
                          [] kind = 11 -> [coordinates |-> p]
                          [] kind = 12 -> [type |-> "Point", coordinates |-> "NULL"]
                          [] kind = 13 -> [type |-> "GeometryCollection", geometries |-> <<[type |-> "GeometryCollection", geometries |-> <<[type |-> "Point", coordinates |-> p]>>], [type |-> "Polygon", coordinates |-> <<>>]>>]
                          [] kind = 14 -> [type |-> "LineString", coordinates |-> <<p, "NULL">>]
             IN /\ st' = <<st[1], st[2], kind>>
                /\ PrintT(ToJson([k |-> "CASE", kind |-> "doc", text |-> ToJson(doc)]))
Next == Pick \/ Emit
Spec == Init /\ [][Next]_<<ph, st>>
=============================================================================
