SPECIFICATION Spec
CONSTANT MaxOps = 2
INVARIANT CtypeUniform ForceLaws ReverseInvolution
CHECK_DEADLOCK FALSE
