SPECIFICATION Spec
CONSTANT Step = 8
CHECK_DEADLOCK FALSE
