----------------------------- MODULE MC_GeoJSON -----------------------------
(* (M) for C06: on the family, the losses are idempotent, the document an     *)
(* encoder writes for Loss(g) has the RFC shape, and decoding it gives back   *)
(* exactly Loss(g) (M dropped, empty Points omitted from MultiPoints, Z kept  *)
(* iff some position exists).                                                 *)
EXTENDS GeoJSONFamily
VARIABLE i
Init == i \in 1..Len(FamilySeq)
Next == UNCHANGED i
Spec == Init /\ [][Next]_i
Inv == LET g == FamilySeq[i] l == Loss(g) d == ToDoc(l) r == Decode(d) IN
   /\ SameTree(Loss(l), l)
   /\ ShapeOK(d)
   /\ r.ok /\ SameTree(r.g, l)
   /\ UniformCt(l, l.ct)
=============================================================================
