SPECIFICATION Spec
CONSTANTS
  N = 4
  Kinds = {"h","q"}
CHECK_DEADLOCK FALSE
