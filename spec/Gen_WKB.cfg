SPECIFICATION Spec
CONSTANT Step = 3
CHECK_DEADLOCK FALSE
