----------------------------- MODULE Trace_RTree -----------------------------
(* Trace validation for C11.  Each line of the trace is one recorded history  *)
(* of the real rtree package: Load (with the node structure exported by the  *)
(* verif hook), then searches as Start / Cb* / Ret, and Nearest calls.       *)
(* A Cb event is enabled only while the search has not been stopped.         *)
EXTENDS RTreeBase, Json, IOUtils

Trace == ndJsonDeserialize(IOEnv.VTRACE)
VARIABLES h, i, boxes, mode, q, visited, lastd, stopped
vars == <<h, i, boxes, mode, q, visited, lastd, stopped>>

Abs0(x) == IF x < 0 THEN -x ELSE x
Ev == Trace[h].evs[i]
Report(r) == IF r = "ok" THEN TRUE ELSE PrintT(ToJson([k |-> "V", l |-> h, i |-> i, r |-> r]))

\* ---- the exported tree: nodes[k] = [leaf, ents: seq of [box, child, rec]]; root is node 1
RECURSIVE SubRecs(_,_)
SubRecs(nodes,k) == LET n == nodes[k] IN
   IF n.leaf THEN {n.ents[j].rec : j \in 1..Len(n.ents)} ELSE UNION {SubRecs(nodes, n.ents[j].child) : j \in 1..Len(n.ents)}
RECURSIVE SubCount(_,_)
SubCount(nodes,k) == LET n == nodes[k] IN
   IF n.leaf THEN Len(n.ents)
   ELSE LET f[j \in 0..Len(n.ents)] == IF j = 0 THEN 0 ELSE f[j-1] + SubCount(nodes, n.ents[j].child) IN f[Len(n.ents)]
NodeBound(nodes,k) == JoinSeq([j \in 1..Len(nodes[k].ents) |-> nodes[k].ents[j].box])
TreeOK(nodes, bxs) ==
  IF Len(bxs) = 0 THEN Len(nodes) = 0 ELSE
  /\ Len(nodes) >= 1
  /\ \A k \in 1..Len(nodes) : LET n == nodes[k] c == SubCount(nodes,k) IN
       /\ Len(n.ents) \in 1..4
       /\ (n.leaf <=> c <= 4)                                   \* <= 4 items: a leaf
       /\ (~n.leaf => Len(n.ents) = (IF c <= 8 THEN 2 ELSE 4))  \* 5..8: two children, >= 9: four
       /\ \A j \in 1..Len(n.ents) :
            IF n.leaf THEN n.ents[j].rec \in 1..Len(bxs) /\ n.ents[j].box = bxs[n.ents[j].rec]
            ELSE n.ents[j].child \in (k+1)..Len(nodes) /\ n.ents[j].box = NodeBound(nodes, n.ents[j].child)
       \* the split halves the items (sizes differ by at most one at each 2-way split)
       /\ (~n.leaf /\ Len(n.ents) = 2 => Abs0(SubCount(nodes,n.ents[1].child) - SubCount(nodes,n.ents[2].child)) <= 1)
  /\ SubRecs(nodes,1) = 1..Len(bxs) /\ SubCount(nodes,1) = Len(bxs)

Init == h \in 1..Len(Trace) /\ i = 1 /\ boxes = <<>> /\ mode = "idle" /\ q = <<0,0,0,0>> /\ visited = {} /\ lastd = 0 /\ stopped = "no"

Load == /\ Ev.e = "Load" /\ mode = "idle" /\ boxes' = Ev.boxes
        /\ Report(IF Ev.count # Len(Ev.boxes) THEN "count"
                  ELSE IF Len(Ev.boxes) = 0 /\ Ev.extent # <<>> THEN "extent-of-empty"
                  ELSE IF Len(Ev.boxes) > 0 /\ Ev.extent # JoinSeq(Ev.boxes) THEN "extent"
                  ELSE IF ~TreeOK(Ev.tree, Ev.boxes) THEN "tree-structure" ELSE "ok")
        /\ UNCHANGED <<mode,q,visited,lastd,stopped>>
Start == /\ Ev.e = "Start" /\ mode = "idle" /\ mode' = Ev.kind /\ q' = Ev.q /\ visited' = {} /\ lastd' = 0 /\ stopped' = "no"
         /\ UNCHANGED boxes
\* a callback: never after the search was told to stop, never twice for a record, only hits / in distance order
Cb == /\ Ev.e = "Cb" /\ mode \in {"range","prio"}
      /\ Report(IF stopped # "no" THEN "callback-after-" \o stopped
                ELSE IF Ev.id \notin 1..Len(boxes) THEN "callback-unknown-record"
                ELSE IF Ev.id \in visited THEN "callback-twice"
                ELSE IF mode = "range" /\ ~Overlap(boxes[Ev.id], q) THEN "callback-for-non-overlapping-record"
                ELSE IF mode = "prio" /\ D2(boxes[Ev.id], q) < lastd THEN "priority-order"
                ELSE "ok")
      /\ visited' = visited \cup {Ev.id}
      /\ lastd' = IF mode = "prio" /\ Ev.id \in 1..Len(boxes) THEN D2(boxes[Ev.id], q) ELSE lastd
      /\ stopped' = IF stopped # "no" THEN stopped ELSE IF Ev.ret = "cont" THEN "no" ELSE Ev.ret
      /\ UNCHANGED <<boxes,mode,q>>
Ret == /\ Ev.e = "Ret" /\ mode \in {"range","prio"}
       /\ LET want == IF stopped = "err" THEN "err" ELSE "nil"
              complete == stopped # "no" \/ (IF mode = "range" THEN visited = {k \in 1..Len(boxes) : Overlap(boxes[k], q)} ELSE visited = 1..Len(boxes))
          IN Report(IF Ev.res # want THEN "return-value:" \o Ev.res ELSE IF ~complete THEN "incomplete" ELSE "ok")
       /\ mode' = "idle" /\ UNCHANGED <<boxes,q,visited,lastd,stopped>>
Nearest == /\ Ev.e = "Nearest" /\ mode = "idle"
           /\ Report(IF Len(boxes) = 0 THEN (IF Ev.found THEN "nearest-found-in-empty" ELSE "ok")
                     ELSE IF ~Ev.found THEN "nearest-not-found"
                     ELSE IF Ev.id \notin 1..Len(boxes) THEN "nearest-unknown-record"
                     ELSE IF \E k \in 1..Len(boxes) : D2(boxes[k], Ev.q) < D2(boxes[Ev.id], Ev.q) THEN "nearest-not-minimal" ELSE "ok")
           /\ UNCHANGED <<boxes,mode,q,visited,lastd,stopped>>
Next == i <= Len(Trace[h].evs) /\ i' = i + 1 /\ h' = h /\ (Load \/ Start \/ Cb \/ Ret \/ Nearest)
Spec == Init /\ [][Next]_vars
RECURSIVE TotalEvents(_)
TotalEvents(k) == IF k = 0 THEN 0 ELSE Len(Trace[k].evs) + 1 + TotalEvents(k-1)
Done == PrintT(ToJson([k |-> "DONE", distinct |-> TLCGet("distinct"), want |-> TotalEvents(Len(Trace))]))
=============================================================================
