SPECIFICATION Spec
CONSTANT Step = 7
CHECK_DEADLOCK FALSE
