------------------------------ MODULE Envelope ------------------------------
(* C12: envelopes as closed intervals.  An envelope is <<>> (empty) or       *)
(* <<minx, miny, maxx, maxy>> with integer ordinates.  The empty envelope is *)
(* the identity of the join and absorbing for the predicates.                *)
EXTENDS Integers, Sequences, FiniteSets, TLC

Min2(a,b) == IF a < b THEN a ELSE b
Max2(a,b) == IF a > b THEN a ELSE b
IsEmptyE(e) == e = <<>>
Join(a,b) == IF IsEmptyE(a) THEN b ELSE IF IsEmptyE(b) THEN a
             ELSE <<Min2(a[1],b[1]), Min2(a[2],b[2]), Max2(a[3],b[3]), Max2(a[4],b[4])>>
OfPoint(p) == <<p[1],p[2],p[1],p[2]>>
ExpandXY(a,p) == Join(a, OfPoint(p))
ContainsP(a,p) == ~IsEmptyE(a) /\ a[1] <= p[1] /\ p[1] <= a[3] /\ a[2] <= p[2] /\ p[2] <= a[4]
Intersects(a,b) == ~IsEmptyE(a) /\ ~IsEmptyE(b) /\ a[1] <= b[3] /\ a[3] >= b[1] /\ a[2] <= b[4] /\ a[4] >= b[2]
Covers(a,b) == ~IsEmptyE(a) /\ ~IsEmptyE(b) /\ a[1] <= b[1] /\ a[2] <= b[2] /\ a[3] >= b[3] /\ a[4] >= b[4]
Dist2(a,b) == LET dx == Max2(0, Max2(b[1]-a[3], a[1]-b[3])) dy == Max2(0, Max2(b[2]-a[4], a[2]-b[4])) IN dx*dx + dy*dy
Width(a) == IF IsEmptyE(a) THEN 0 ELSE a[3]-a[1]
Height(a) == IF IsEmptyE(a) THEN 0 ELSE a[4]-a[2]
Area(a) == Width(a) * Height(a)
Kind(a) == IF IsEmptyE(a) THEN "empty" ELSE IF a[1] = a[3] /\ a[2] = a[4] THEN "point"
           ELSE IF a[1] = a[3] \/ a[2] = a[4] THEN "line" ELSE "rectangle"
\* envelope of a set of points
MinS(S) == CHOOSE x \in S : \A y \in S : x <= y
MaxS(S) == CHOOSE x \in S : \A y \in S : x >= y
OfPoints(P) == IF P = {} THEN <<>> ELSE <<MinS({p[1] : p \in P}), MinS({p[2] : p \in P}), MaxS({p[1] : p \in P}), MaxS({p[2] : p \in P})>>
\* the four corners, as a set
Corners(a) == {<<a[1],a[2]>>, <<a[1],a[4]>>, <<a[3],a[4]>>, <<a[3],a[2]>>}
=============================================================================
