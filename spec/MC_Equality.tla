----------------------------- MODULE MC_Equality -----------------------------
(* (M) for C18: on every base geometry and pair of its variants, Eq and EqIO   *)
(* are reflexive, symmetric and transitive, Eq implies EqIO, reorderings are   *)
(* EqIO-equal to the original and single differences are never equal.          *)
EXTENDS EqFamily
VARIABLES i, d1, d2
Init == i \in 1..Len(BaseSeq) /\ d1 \in Descr(BaseSeq[i]) /\ d2 \in Descr(BaseSeq[i])
Next == UNCHANGED <<i, d1, d2>>
Spec == Init /\ [][Next]_<<i, d1, d2>>
MemberEq(t, x, y) == CASE t = "MultiPoint" -> EqPt(x, y)
                      [] t = "MultiLineString" -> EqCurveIO(x, y)
                      [] t = "MultiPolygon" -> EqPolyIO(x, y)
                      [] OTHER -> EqIO(x, y)
Count(t, x, c) == Cardinality({j \in 1..Len(c) : MemberEq(t, x, c[j])})
MultisetLaw(a, b) ==
  (a.t = b.t /\ a.ct = b.ct /\ a.t \in {"MultiPoint","MultiLineString","MultiPolygon","GeometryCollection"})
  => (EqIO(a, b) <=> (Len(a.c) = Len(b.c) /\ \A m \in 1..Len(a.c) : Count(a.t, a.c[m], a.c) = Count(a.t, a.c[m], b.c)))
Reorder == {"same","rev","rot","rotrev","holes","ringrot","ringsrev","perm"}
Laws == LET g == BaseSeq[i] a == Variant(g, d1) b == Variant(g, d2) IN
  /\ Eq(a,a) /\ EqIO(a,a)
  /\ Eq(a,b) = Eq(b,a) /\ EqIO(a,b) = EqIO(b,a)
  /\ (Eq(a,b) => EqIO(a,b))
  /\ (EqIO(g,a) /\ EqIO(g,b) => EqIO(a,b))
  /\ (d1[1] \in Reorder => EqIO(g,a))
  /\ (d1[1] \in {"bump","drop"} /\ ~SameTree(a,g) => ~EqIO(g,a) /\ ~Eq(g,a))
  \* a bijection of members exists exactly when the member lists are equal as multisets of equivalence classes: every
  \* member has as many equals on the other side as on its own (counting is independent of the backtracking in Bij)
  /\ MultisetLaw(a, b)
=============================================================================
