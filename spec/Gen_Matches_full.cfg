SPECIFICATION Spec
CONSTANT Step = 1
CHECK_DEADLOCK FALSE
