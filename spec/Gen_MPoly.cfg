SPECIFICATION Spec
CONSTANTS
  N = 2
  Step = 3
CHECK_DEADLOCK FALSE
