------------------------------ MODULE Measures ------------------------------
(* C14: exact area (2*Area is an integer on the lattice), length bounds via  *)
(* integer square roots, and exact rational centroids.                       *)
EXTENDS PointSet

RECURSIVE Shoe2(_,_)
Shoe2(r,i) == IF i >= Len(r) THEN 0 ELSE (r[i][1]*r[i+1][2] - r[i+1][1]*r[i][2]) + Shoe2(r,i+1)
Ring2(r) == Shoe2(r,1)                                  \* twice the signed area, positive for counter-clockwise
Area2Poly(poly) == Abs(Ring2(poly[1])) - SumSeq([k \in 1..(Len(poly)-1) |-> Abs(Ring2(poly[k+1]))])
Area2(g) == SumSeq([k \in 1..Len(g.areas) |-> Area2Poly(g.areas[k])])
\* signed area is defined when every shell is CCW and every hole CW (positive) or the exact opposite (negative)
Orient(g) == LET shells == {Sgn(Ring2(g.areas[k][1])) : k \in 1..Len(g.areas)}
                 holes == UNION {{Sgn(Ring2(g.areas[k][j])) : j \in 2..Len(g.areas[k])} : k \in 1..Len(g.areas)}
             IN IF shells = {1} /\ holes \subseteq {-1} THEN 1
                ELSE IF shells = {-1} /\ holes \subseteq {1} THEN -1 ELSE 0

\* integer square root (floor)
RECURSIVE IsqrtB(_,_,_)
IsqrtB(n,lo,hi) == IF lo >= hi THEN lo ELSE LET m == (lo + hi + 1) \div 2 IN IF m*m <= n THEN IsqrtB(n,m,hi) ELSE IsqrtB(n,lo,m-1)
Isqrt(n) == IsqrtB(n, 0, 46340)
SegLen2(s) == (s[2][1]-s[1][1])*(s[2][1]-s[1][1]) + (s[2][2]-s[1][2])*(s[2][2]-s[1][2])
\* all segments of the lineal part, with multiplicity (a sequence)
RECURSIVE LineSegSeq(_)
LineSegSeq(ls) == IF Len(ls) < 2 THEN <<>> ELSE <<<<ls[1],ls[2]>>>> \o LineSegSeq(Tail(ls))
AllLineSegs(g) == LET f[i \in 0..Len(g.lines)] == IF i = 0 THEN <<>> ELSE f[i-1] \o LineSegSeq(g.lines[i]) IN f[Len(g.lines)]
\* floor(length * 256) lies in [LenLo, LenHi]
LenLo(g) == LET ss == AllLineSegs(g) IN SumSeq([i \in 1..Len(ss) |-> Isqrt(SegLen2(ss[i])*65536)])
LenHi(g) == LenLo(g) + Len(AllLineSegs(g))

\* ---- centroids as <<numx, numy, den>>
RECURSIVE C6(_,_,_)
C6(r,i,k) == IF i >= Len(r) THEN 0
             ELSE (r[i][k] + r[i+1][k]) * (r[i][1]*r[i+1][2] - r[i+1][1]*r[i][2]) + C6(r,i+1,k)
RingSign(poly,j) == IF j = 1 THEN Sgn(Ring2(poly[1])) ELSE -Sgn(Ring2(poly[j]))
PolyC6(poly,k) == SumSeq([j \in 1..Len(poly) |-> RingSign(poly,j) * C6(poly[j],1,k)])
ArealCentroid(g) == <<SumSeq([i \in 1..Len(g.areas) |-> PolyC6(g.areas[i],1)]),
                      SumSeq([i \in 1..Len(g.areas) |-> PolyC6(g.areas[i],2)]), 3*Area2(g)>>
IsSquare(n) == Isqrt(n)*Isqrt(n) = n
LinealExact(g) == LET ss == AllLineSegs(g) IN \A i \in 1..Len(ss) : IsSquare(SegLen2(ss[i]))
LinealCentroid(g) == LET ss == AllLineSegs(g) L(i) == Isqrt(SegLen2(ss[i])) IN
   <<SumSeq([i \in 1..Len(ss) |-> L(i)*(ss[i][1][1]+ss[i][2][1])]),
     SumSeq([i \in 1..Len(ss) |-> L(i)*(ss[i][1][2]+ss[i][2][2])]),
     2*SumSeq([i \in 1..Len(ss) |-> L(i)])>>
PointCentroid(g) == <<SumSeq([i \in 1..Len(g.pts) |-> g.pts[i][1]]), SumSeq([i \in 1..Len(g.pts) |-> g.pts[i][2]]), Len(g.pts)>>
\* When a segment length is irrational the lineal centroid is not a rational number; it is then bracketed with
\* the lengths known to 1/64: with lo_i <= 64*len_i <= lo_i + 1 and non-negative coordinates,
\*   sum lo_i (a_i + b_i) / (2 sum hi_i)  <=  c  <=  sum hi_i (a_i + b_i) / (2 sum lo_i)
LinealBracket(g, k, n) ==
  LET ss == AllLineSegs(g)
      lo(i) == Isqrt(SegLen2(ss[i]) * 4096)
      SLo == SumSeq([i \in 1..Len(ss) |-> lo(i)])
      SHi == SLo + Len(ss)
      ALo == SumSeq([i \in 1..Len(ss) |-> lo(i) * (ss[i][1][k] + ss[i][2][k])])
      AHi == ALo + SumSeq([i \in 1..Len(ss) |-> ss[i][1][k] + ss[i][2][k]])
  IN Len(ss) > 24 \/ (/\ (n + 2) * 2 * SHi >= 1024 * ALo
                      /\ (SLo = 0 \/ (n - 2) * 2 * SLo <= 1024 * AHi))
\* every vertex ordinate of the geometry (the centroid of anything lies in the box they span)
Ords(g, k) == {g.pts[i][k] : i \in 1..Len(g.pts)}
              \cup UNION {{g.lines[i][j][k] : j \in 1..Len(g.lines[i])} : i \in 1..Len(g.lines)}
              \cup UNION {UNION {{g.areas[i][r][j][k] : j \in 1..Len(g.areas[i][r])} : r \in 1..Len(g.areas[i])} : i \in 1..Len(g.areas)}
InSpan(g, k, n) == LET S == Ords(g, k) IN (\E v \in S : 1024 * v <= n + 2) /\ (\E v \in S : n - 2 <= 1024 * v)
\* logged n = round(c * 1024) against num/den
CNear(n,num,den) == Abs(n*den - num*1024) <= 2*Abs(den)
=============================================================================
