------------------------------ MODULE Gen_Rings ------------------------------
(* (G) for C03: every closed walk with MinK..MaxK vertices on a 3 x 3 lattice  *)
(* (consecutive vertices distinct; vertices may repeat otherwise, so rings that *)
(* touch or cross themselves at a vertex, spikes and bow-ties occur with every  *)
(* possible start vertex and direction) becomes two cases: a Polygon with that  *)
(* ring for Validate(), and a closed LineString for IsSimple / IsRing.          *)
EXTENDS Integers, Sequences, TLC, Json
CONSTANTS MinK, MaxK, Step
Pts == {<<x,y>> : x \in 0..2, y \in 0..2}
VARIABLES ph, w
Init == ph = "grow" /\ w = <<>>
Grow == /\ ph = "grow" /\ Len(w) < MaxK
        /\ \E p \in Pts : (IF Len(w) = 0 THEN TRUE ELSE w[Len(w)] # p) /\ w' = Append(w, p) /\ ph' = "grow"
PtStr(p) == ToString(p[1]) \o " " \o ToString(p[2])
RECURSIVE SeqStr(_)
SeqStr(s) == IF Len(s) = 1 THEN PtStr(s[1]) ELSE PtStr(s[1]) \o "," \o SeqStr(Tail(s))
Code(s) == LET f[i \in 0..Len(s)] == IF i = 0 THEN 0 ELSE (f[i-1]*9 + s[i][1]*3 + s[i][2]) % 100003 IN f[Len(s)]
Emit == /\ ph = "grow" /\ Len(w) >= MinK /\ w[Len(w)] # w[1] /\ Code(w) % Step = 0
        /\ ph' = "case" /\ w' = w
        /\ PrintT(ToJson([k |-> "CASE", kind |-> "geom", w |-> "POLYGON((" \o SeqStr(Append(w, w[1])) \o "))"]))
        /\ PrintT(ToJson([k |-> "CASE", kind |-> "line", w |-> "LINESTRING(" \o SeqStr(Append(w, w[1])) \o ")"]))
Next == Grow \/ Emit
Spec == Init /\ [][Next]_<<ph, w>>
=============================================================================
