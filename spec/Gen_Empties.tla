----------------------------- MODULE Gen_Empties -----------------------------
(* (G) for C20: every all-empty shape to depth 2 (typed empties in the four    *)
(* coordinate types, Multi* of empty members, collections of 1..3 empties of   *)
(* mixed types, nested collections) becomes a case: the real library is asked  *)
(* for every public method and function on it.                                 *)
EXTENDS Empties, Json
VARIABLES ph, st
Init == ph = "start" /\ st = <<>>
Pick == ph = "start" /\ ph' = "mid" /\ \E c \in 1..4, n \in 0..3 : st' = <<c, n>>
Emit == /\ ph = "mid" /\ ph' = "case"
        /\ LET ct == CTs[st[1]] L == Leaves(ct) n == st[2] IN
           \E i \in 1..Len(L), j \in 1..Len(L), k \in 1..Len(L), nest \in BOOLEAN :
             LET ms == IF n = 0 THEN <<>> ELSE IF n = 1 THEN <<L[i]>> ELSE IF n = 2 THEN <<L[i], L[j]>> ELSE <<L[i], L[j], L[k]>>
                 g0 == IF n = 0 THEN L[i] ELSE [t |-> "GeometryCollection", ct |-> ct, c |-> ms]
                 g == IF nest THEN [t |-> "GeometryCollection", ct |-> ct, c |-> <<g0>>] ELSE g0
             IN /\ (n < 2 => j = 1) /\ (n < 3 => k = 1) /\ (n = 3 => (i + j + k) % 5 = 0)
                /\ st' = <<st[1], n, i, j, k, nest>>
                /\ PrintT(ToJson([k |-> "CASE", kind |-> "shape", tree |-> g]))
Next == Pick \/ Emit
Spec == Init /\ [][Next]_<<ph, st>>
=============================================================================
