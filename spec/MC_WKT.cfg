SPECIFICATION Spec
INVARIANT RoundTrip Trailing
CHECK_DEADLOCK FALSE
