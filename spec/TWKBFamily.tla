---------------------------- MODULE TWKBFamily ----------------------------
(* The family of small abstract geometries used by MC_TWKB and Gen_TWKB.      *)
EXTENDS TWKB
Vals == {-1, 0, 2}
P2 == {<<x,y>> : x \in Vals, y \in Vals}
Pt(p) == [t |-> 1, e |-> FALSE, c |-> <<p>>]
EPt == [t |-> 1, e |-> TRUE, c |-> <<>>]
LSs == {[t |-> 2, e |-> FALSE, c |-> <<a,b>>] : a \in P2, b \in {<<-1,-1>>, <<2,0>>, <<70,-70>>}} \cup {[t |-> 2, e |-> TRUE, c |-> <<>>]}
Ring(a) == <<a, <<a[1]+3,a[2]>>, <<a[1],a[2]+3>>, a>>
Pgs == {[t |-> 3, e |-> FALSE, c |-> <<Ring(a)>>] : a \in P2} \cup {[t |-> 3, e |-> FALSE, c |-> <<Ring(<<0,0>>), Ring(<<100,100>>)>>], [t |-> 3, e |-> TRUE, c |-> <<>>]}
MPts == {[t |-> 4, e |-> FALSE, c |-> <<a,b>>] : a \in P2, b \in {<<2,2>>, <<-1,0>>}} \cup {[t |-> 4, e |-> TRUE, c |-> <<>>]}
MLSs == {[t |-> 5, e |-> FALSE, c |-> <<x.c, <<>>, y.c>>] : x \in {l \in LSs : ~l.e}, y \in {[t |-> 2, e |-> FALSE, c |-> << <<0,0>>, <<2,2>> >>]}}
MPgs == {[t |-> 6, e |-> FALSE, c |-> <<x.c, y.c>>] : x \in {p \in Pgs : ~p.e}, y \in {[t |-> 3, e |-> FALSE, c |-> <<Ring(<<50,50>>)>>], [t |-> 3, e |-> FALSE, c |-> <<>>]}}
\* TLC cannot hold geometries of different shapes in one set (their c fields are not comparable):
\* the family is a sequence assembled from homogeneous sets
RECURSIVE SeqOfSet(_)
SeqOfSet(X) == IF X = {} THEN <<>> ELSE LET x == CHOOSE y \in X : TRUE IN <<x>> \o SeqOfSet(X \ {x})
GCSeq(xs, ys) == LET f[i \in 0..Len(xs)] == IF i = 0 THEN <<>> ELSE f[i-1] \o [j \in 1..Len(ys) |-> [t |-> 7, e |-> FALSE, c |-> <<xs[i], ys[j]>>]] IN f[Len(xs)]
SimpleSeq == SeqOfSet({Pt(p) : p \in P2}) \o <<EPt>> \o SeqOfSet(LSs) \o SeqOfSet(Pgs) \o SeqOfSet(MPts)
FirstSeq == <<Pt(<<2,-1>>), EPt, [t |-> 2, e |-> TRUE, c |-> <<>>], [t |-> 3, e |-> TRUE, c |-> <<>>]>>
GCAll == GCSeq(FirstSeq, SimpleSeq \o SeqOfSet(MLSs))
GCOk == SelectSeq(GCAll, LAMBDA x : ~(x.c[1].e /\ x.c[2].e))
NestedSeq == LET base == SelectSeq(GCOk, LAMBDA x : x.c[2].t \in {1,2}) IN [i \in 1..Len(base) |-> [t |-> 7, e |-> FALSE, c |-> <<base[i], Pt(<<5,5>>)>>]]
FamilySeq == SimpleSeq \o SeqOfSet(MLSs) \o SeqOfSet(MPgs) \o GCOk \o <<[t |-> 7, e |-> TRUE, c |-> <<>>]>> \o NestedSeq
\* lift a 2-d geometry to 3 dimensions (third ordinate derived from the first two)
L3(p) == <<p[1], p[2], p[1] - p[2]>>
RECURSIVE Lift(_)
Lift(g) == IF g.e THEN g ELSE
   CASE g.t \in {1,2,4} -> [g EXCEPT !.c = [i \in 1..Len(g.c) |-> L3(g.c[i])]]
     [] g.t \in {3,5} -> [g EXCEPT !.c = [i \in 1..Len(g.c) |-> [j \in 1..Len(g.c[i]) |-> L3(g.c[i][j])]]]
     [] g.t = 6 -> [g EXCEPT !.c = [i \in 1..Len(g.c) |-> [k \in 1..Len(g.c[i]) |-> [j \in 1..Len(g.c[i][k]) |-> L3(g.c[i][k][j])]]]]
     [] g.t = 7 -> [g EXCEPT !.c = [i \in 1..Len(g.c) |-> Lift(g.c[i])]]
NumMembers(g) == IF g.e \/ g.t \notin {4,5,6,7} THEN 0 ELSE Len(g.c)
Opts(g,d) == {[size |-> s, bbox |-> b, closed |-> c, prec |-> p, d |-> d, ids |-> ids] :
               s \in BOOLEAN, b \in BOOLEAN, c \in BOOLEAN, p \in {-1,0,2},
               ids \in {<<>>, [i \in 1..NumMembers(g) |-> 100 - 70*i]}}
=============================================================================
