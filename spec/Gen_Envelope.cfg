SPECIFICATION Spec
CONSTANTS
  N = 3
  Triples = FALSE
CHECK_DEADLOCK FALSE
