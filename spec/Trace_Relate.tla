---------------------------- MODULE Trace_Relate ----------------------------
(* Trace validation for C02: every recorded call of Relate / the named       *)
(* predicates on the real library is one line; a step is a mismatch unless   *)
(* the logged results are the ones the definitional DE-9IM allows.           *)
EXTENDS Validity, Json, IOUtils

Trace == ndJsonDeserialize(IOEnv.VTRACE)
S == 64
VARIABLES sh, l
vars == <<sh, l>>

PredOK(e, x, da, db) == \A i \in 1..Len(PredNames) :
     LET nm == PredNames[i] IN e.preds[i] = PredX(nm, x, da, db)

CheckMatches(e) ==
  \* the property says nothing about malformed strings beyond what follows from the patterns: they never match
  IF ~ValidMatrix(e.m) \/ ~ValidPattern(e.p) THEN (IF e.err # "" \/ ~e.res THEN "ok" ELSE "malformed-matrix-or-pattern-matched")
  ELSE IF e.err # "" THEN "relatematches-error"
  ELSE IF e.res # Matches(e.m, e.p) THEN "relatematches-result"
  ELSE "ok"

Check(e) ==
  IF e.panic # "" THEN "panic"
  ELSE IF e.kind = "matches" THEN CheckMatches(e)
  ELSE IF ~PartsValid(e.a) \/ ~PartsValid(e.b) THEN "skip:invalid-operand"
  ELSE IF ~PartsDisjoint(e.a) \/ ~PartsDisjoint(e.b) THEN "skip:overlapping-members"
  ELSE LET ga == Merge(e.a) gb == Merge(e.b) IN
  IF e.gp /\ ~GeneralPosition(ga,gb) THEN "skip:not-general-position"
  ELSE IF e.err # "" THEN "error-returned"
  ELSE LET m == Relate(ga,gb) IN
  IF e.ab # m THEN "matrix:" \o m
  ELSE IF e.ba # Transpose(m) THEN "transpose:" \o Transpose(m)
  ELSE IF ~PredOK(e, Explode(m), DimG(ga), DimG(gb)) THEN "predicate"
  ELSE "ok"

Init == sh \in 1..S /\ l = sh
Next == /\ l <= Len(Trace) /\ l' = l + S /\ sh' = sh
        /\ LET r == Check(Trace[l]) IN IF r = "ok" THEN TRUE ELSE PrintT(ToJson([k |-> "V", l |-> l, r |-> r]))
Spec == Init /\ [][Next]_vars
Done == PrintT(ToJson([k |-> "DONE", distinct |-> TLCGet("distinct"), want |-> Len(Trace) + S]))
=============================================================================
