SPECIFICATION Spec
CONSTANTS
  N = 3
  Kinds = {"p","s","q","h"}
CHECK_DEADLOCK FALSE
