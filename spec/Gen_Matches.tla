----------------------------- MODULE Gen_Matches -----------------------------
(* (G) for C02: DE-9IM matrices against the documented predicate patterns and  *)
(* malformed strings, as cases for the real RelateMatches.                     *)
EXTENDS DE9IM, Json
CONSTANT Step
Chars == <<"F","0","1","2">>
Pats == <<"T*F**FFF*", "FF*FF****", "FT*******", "F**T*****", "F***T****", "T*****FF*", "*T****FF*", "***T**FF*", "****T*FF*",
          "T*F**F***", "*TF**F***", "**FT*F***", "**F*TF***", "T*T******", "T*****T**", "0********", "1*T***T**", "T*T***T**",
          "*********", "012F*T012", "T*F**FFF", "T*F**FFF**", "X*F**FFF*", "t*F**FFF*", "">>
VARIABLES ph, x
Init == ph = "start" /\ x = <<>>
Grow == ph = "start" /\ Len(x) < 9 /\ \E c \in 1..4 : x' = Append(x, c) /\ ph' = IF Len(x) = 8 THEN "mid" ELSE "start"
Num(y) == LET f[i \in 0..Len(y)] == IF i = 0 THEN 0 ELSE 4*f[i-1] + (y[i]-1) IN f[Len(y)]
Str(y) == LET f[i \in 0..Len(y)] == IF i = 0 THEN "" ELSE f[i-1] \o Chars[y[i]] IN f[Len(y)]
Emit == /\ ph = "mid" /\ ph' = "case" /\ Num(x) % Step = 0
        /\ \E k \in 1..Len(Pats) : (Num(x) \div Step + k) % 6 = 0 /\ x' = <<Num(x), k>>
             /\ PrintT(ToJson([k |-> "CASE", kind |-> "matches", m |-> Str(x), p |-> Pats[k]]))
Bad == /\ ph = "start" /\ x = <<>> /\ ph' = "case"
       /\ \E m \in {"", "FFFFFFFF", "FFFFFFFFFF", "FFFFFFFF3", "TFFFFFFFF", "ffffffff2", "*FFFFFFFF"}, k \in {1, 19} : x' = <<m, k>>
            /\ PrintT(ToJson([k |-> "CASE", kind |-> "matches", m |-> m, p |-> Pats[k]]))
Next == Grow \/ Emit \/ Bad
Spec == Init /\ [][Next]_<<ph, x>>
=============================================================================
