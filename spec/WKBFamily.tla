----------------------------- MODULE WKBFamily -----------------------------
(* Small abstract geometries for MC_WKB / Gen_WKB: all 7 types x 4 coordinate *)
(* types, empty members at every position, nesting to depth 3, ordinate tokens*)
(* from several float classes (NaN payload and infinity only in Z / M).       *)
EXTENDS WKB
TokXY == <<"400921fb54442d18", "c005bf0a8b145769", "8000000000000000", "0000000000000001", "7fefffffffffffff", "405edd2f1a9fbe77">>
TokZM == <<"7ff8000000000abc", "7ff0000000000000", "40c81cd6c8b43958", "fff0000000000000">>
P(ct,k) == [i \in 1..DimOf(ct) |-> IF i <= 2 THEN TokXY[((k + i) % 6) + 1] ELSE TokZM[((k + i) % 4) + 1]]
Ring(ct,k) == <<P(ct,k), P(ct,k+1), P(ct,k+2), P(ct,k)>>
G(t,ct,c) == [t |-> t, ct |-> ct, c |-> c]
Fam(ct) == <<
  G("Point",ct,<<>>), G("Point",ct,P(ct,1)),
  G("LineString",ct,<<>>), G("LineString",ct,<<P(ct,1),P(ct,2)>>),
  G("Polygon",ct,<<>>), G("Polygon",ct,<<Ring(ct,1)>>), G("Polygon",ct,<<Ring(ct,1),Ring(ct,4)>>),
  G("MultiPoint",ct,<<>>), G("MultiPoint",ct,<<P(ct,1),<<>>,P(ct,3)>>), G("MultiPoint",ct,<< <<>> >>),
  G("MultiLineString",ct,<<>>), G("MultiLineString",ct,<< <<P(ct,1),P(ct,2)>>, <<>> >>),
  G("MultiPolygon",ct,<<>>), G("MultiPolygon",ct,<< <<Ring(ct,2)>>, <<>> >>),
  G("GeometryCollection",ct,<<>>),
  G("GeometryCollection",ct,<<G("Point",ct,P(ct,2)), G("Point",ct,<<>>), G("LineString",ct,<<P(ct,1),P(ct,5)>>)>>),
  G("GeometryCollection",ct,<<G("GeometryCollection",ct,<<G("MultiPoint",ct,<<P(ct,1),<<>>>>)>>), G("Polygon",ct,<<>>)>>),
  G("GeometryCollection",ct,<<G("GeometryCollection",ct,<<G("GeometryCollection",ct,<<G("Point",ct,P(ct,4))>>)>>)>>),
  G("GeometryCollection",ct,<<G("GeometryCollection",ct,<<>>), G("MultiPolygon",ct,<< <<Ring(ct,3)>> >>)>>)
>>
FamilySeq == Fam("XY") \o Fam("XYZ") \o Fam("XYM") \o Fam("XYZM")
=============================================================================
