------------------------------ MODULE RTreeBase ------------------------------
(* Boxes <<minx,miny,maxx,maxy>> with integer ordinates; closed overlap,     *)
(* squared box-to-box distance, join.  Shared by the reference model         *)
(* (RTree.tla) and the trace specification (Trace_RTree.tla).                *)
EXTENDS Integers, Sequences, FiniteSets, TLC

Min2(a,b) == IF a < b THEN a ELSE b
Max2(a,b) == IF a > b THEN a ELSE b
Overlap(a,b) == a[1] <= b[3] /\ a[3] >= b[1] /\ a[2] <= b[4] /\ a[4] >= b[2]
D2(a,b) == LET dx == Max2(0, Max2(a[1]-b[3], b[1]-a[3])) dy == Max2(0, Max2(a[2]-b[4], b[2]-a[4])) IN dx*dx+dy*dy
Join(a,b) == <<Min2(a[1],b[1]), Min2(a[2],b[2]), Max2(a[3],b[3]), Max2(a[4],b[4])>>
RECURSIVE JoinSeq(_)
JoinSeq(bs) == IF Len(bs) = 1 THEN bs[1] ELSE Join(bs[1], JoinSeq(Tail(bs)))
=============================================================================
