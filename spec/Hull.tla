-------------------------------- MODULE Hull --------------------------------
(* C13: the convex hull by definition, the monotone-chain stack machine as   *)
(* reference algorithm, and the rotated bounding rectangles.                 *)
EXTENDS PointSet

\* ---- conditions on a reported hull h = [kind, pts] for the control point set P
CheckHullP(P,h) ==
  IF P = {} THEN (IF h.kind = "empty" THEN "ok" ELSE "hull-nonempty-for-empty")
  ELSE IF Cardinality(P) = 1 THEN (IF h.kind = "point" /\ h.pts[1] \in P THEN "ok" ELSE "hull-point")
  ELSE IF \A a \in P, b \in P, c \in P : Or3(a,b,c) = 0
       THEN (IF h.kind = "line" /\ Len(h.pts) = 2 /\ h.pts[1] \in P /\ h.pts[2] \in P /\ h.pts[1] # h.pts[2]
                /\ \A p \in P : OnSegH(<<h.pts[1],h.pts[2]>>, H(p)) THEN "ok" ELSE "hull-line")
  ELSE IF h.kind # "poly" THEN "hull-kind"
  ELSE LET r == h.pts n == Len(r) - 1 IN
       IF n < 3 \/ r[1] # r[n+1] THEN "hull-ring"
       ELSE IF ~\A i \in 1..n : r[i] \in P THEN "hull-vertex-not-a-control-point"
       ELSE LET nx(i) == IF i = n THEN 1 ELSE i+1
                turn(i) == Or3(r[i], r[nx(i)], r[nx(nx(i))])
                s == turn(1) IN
            IF s = 0 \/ ~\A i \in 1..n : turn(i) = s THEN "hull-not-strictly-convex"
            ELSE IF ~\A p \in P : \A i \in 1..n : Or3(r[i], r[nx(i)], p) * s >= 0 THEN "hull-not-covering"
            ELSE "ok"

\* ---- the hull by definition: extreme points (not inside the hull of the others)
InTri(a,b,c,p) == LET o1 == Or3(a,b,p) o2 == Or3(b,c,p) o3 == Or3(c,a,p) IN
                  (o1 >= 0 /\ o2 >= 0 /\ o3 >= 0) \/ (o1 <= 0 /\ o2 <= 0 /\ o3 <= 0)
Extreme(P,p) == /\ ~\E a \in P \ {p}, b \in P \ {p} : a # b /\ OnSegH(<<a,b>>, H(p))
                /\ ~\E a \in P \ {p}, b \in P \ {p}, c \in P \ {p} : Or3(a,b,c) # 0 /\ InTri(a,b,c,p)
SpecHullSet(P) == {p \in P : Extreme(P,p)}

\* ---- monotone chain as a stack machine (reference algorithm)
Lex(p,q) == p[1] < q[1] \/ (p[1] = q[1] /\ p[2] < q[2])
RECURSIVE SortPts(_)
SortPts(P) == IF P = {} THEN <<>> ELSE LET m == CHOOSE p \in P : \A q \in P : p = q \/ Lex(p,q) IN <<m>> \o SortPts(P \ {m})
RECURSIVE PopWhile(_,_)
PopWhile(st,p) == IF Len(st) >= 2 /\ Or3(st[Len(st)-1], st[Len(st)], p) <= 0 THEN PopWhile(SubSeq(st,1,Len(st)-1), p) ELSE st
RECURSIVE Chain(_,_)
Chain(pts,st) == IF pts = <<>> THEN st ELSE Chain(Tail(pts), Append(PopWhile(st, Head(pts)), Head(pts)))
RevSeq(s) == [i \in 1..Len(s) |-> s[Len(s)+1-i]]
MonotoneHull(P) == LET s == SortPts(P) lo == Chain(s, <<>>) up == Chain(RevSeq(s), <<>>) IN
                   SeqSet(lo) \cup SeqSet(up)

MinS0(S) == CHOOSE x \in S : \A y \in S : x <= y
MaxS0(S) == CHOOSE x \in S : \A y \in S : x >= y
\* a/b <= c/d for a, c >= 0 and b, d > 0 by continued fractions: no product is formed, so nothing overflows TLC's 32-bit
\* integers however large the lattice
RECURSIVE RatLeP(_,_,_,_)
RatLeP(a,b,c,d) == LET q1 == a \div b q2 == c \div d IN
  IF q1 # q2 THEN q1 < q2
  ELSE LET r1 == a % b r2 == c % d IN
       IF r1 = 0 THEN TRUE ELSE IF r2 = 0 THEN FALSE ELSE RatLeP(d, r2, b, r1)
RatLe(a,b) == RatLeP(a[1], a[2], b[1], b[2])
RatMin(S) == CHOOSE x \in S : \A y \in S : RatLe(x,y)

\* ---- rotated rectangles.  hull ring r (closed, CCW or CW), n = Len(r)-1 edges
\* exact area of the enclosing rectangle aligned with edge i, as <<num,den>>
DotD(d,v) == d[1]*v[1] + d[2]*v[2]
CrsD(d,p,v) == Cross(d[1],d[2],v[1]-p[1],v[2]-p[2])
EdgeRect(r,i) == LET p == r[i] q == r[i+1] d == <<q[1]-p[1], q[2]-p[2]>>
                     VS == SeqSet(r)
                     span == MaxS0({DotD(d,v) : v \in VS}) - MinS0({DotD(d,v) : v \in VS})
                     hgt == MaxS0({Abs(CrsD(d,p,v)) : v \in VS})
                 IN [area |-> <<span*hgt, DotD(d,d)>>, w2 |-> <<hgt*hgt, DotD(d,d)>>]
MinArea(r) == RatMin({EdgeRect(r,i).area : i \in 1..(Len(r)-1)})
MinW2(r) == RatMin({EdgeRect(r,i).w2 : i \in 1..(Len(r)-1)})

\* rectangle corners c (5 points, closed) scaled by RK; tolerance in scaled units
RK == 256
RT == 3
\* signed scaled "cross" of lattice point v against the rectangle side c[i] -> c[i+1]
SideCross(c,i,v) == Cross(c[i+1][1]-c[i][1], c[i+1][2]-c[i][2], v[1]*RK-c[i][1], v[2]*RK-c[i][2])
SideLen1(c,i) == Abs(c[i+1][1]-c[i][1]) + Abs(c[i+1][2]-c[i][2])
RectCovers(c,VS) == \/ \A v \in VS : \A i \in 1..4 : SideCross(c,i,v) >= -RT*SideLen1(c,i)
                    \/ \A v \in VS : \A i \in 1..4 : SideCross(c,i,v) <= RT*SideLen1(c,i)
\* some side of the rectangle lies on the line of some hull edge
NearLine(p,q,x) == Abs(Cross(q[1]-p[1], q[2]-p[2], x[1]-p[1]*RK, x[2]-p[2]*RK)) <= RT*(Abs(q[1]-p[1])+Abs(q[2]-p[2]))
RectAligned(c,r) == \E i \in 1..(Len(r)-1) : \E j \in 1..4 : NearLine(r[i],r[i+1],c[j]) /\ NearLine(r[i],r[i+1],c[j+1])
\* logged n = floor(value * 1024) against the exact rational v = <<num,den>>, with relative slack
\* (|n - 1024*num/den| <= 8 + num/(64*den), evaluated with quotients so that no product exceeds 32 bits: the exact
\* floor of 1024*num/den is 1024*q + floor(1024*rem/den); one more unit of slack pays for the two floors)
ValNear(n,v) == LET q == v[1] \div v[2] rem == v[1] % v[2] T == 1024*q + ((1024*rem) \div v[2]) IN
                Abs(n - T) <= 9 + (q \div 64)
=============================================================================
