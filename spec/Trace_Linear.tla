------------------------------ MODULE Trace_Linear ------------------------------
(* Trace validation for C17.                                                   *)
EXTENDS LinearOps, Json, IOUtils

Trace == ndJsonDeserialize(IOEnv.VTRACE)
S == 64
VARIABLES sh, l
vars == <<sh, l>>

\* Z / M at the interpolated point: linear in arc length within the segment.  zs = per-vertex values (integers);
\* checked only where it is well defined (no zero-length segment at the position)
RECURSIVE ZAt(_,_,_,_,_)
ZAt(ln,zs,sn,sd,i) ==
  IF i = Len(ln) - 1 \/ sn <= Cum(ln,i)*sd
  THEN LET L == SegLen(ln,i) off == sn - Cum(ln,i-1)*sd IN
       IF L = 0 THEN <<zs[i], 1>> ELSE <<zs[i]*sd*L + off*(zs[i+1]-zs[i]), sd*L>>
  ELSE ZAt(ln,zs,sn,sd,i+1)

CheckInterp(e) ==
  IF ~IntegerLengths(e.line) THEN "skip:irrational-arc-length"
  ELSE IF e.empty THEN "interpolated-point-empty"
  ELSE IF ~e.finite THEN "interpolated-point-not-finite"
  ELSE LET p == Interp(e.line, e.fn, e.fd) IN
  IF ~(Near1024(e.q[1], p[1], p[3], 2) /\ Near1024(e.q[2], p[2], p[3], 2)) THEN "interpolated-point-position"
  ELSE IF Len(e.line) > 1 /\ Total(e.line) > 0 /\ \A i \in 1..(Len(e.line)-1) : SegLen(e.line,i) > 0 THEN
       (LET cn == IF e.fn < 0 THEN 0 ELSE IF e.fn > e.fd THEN e.fd ELSE e.fn
            z == ZAt(e.line, e.zs, cn*Total(e.line), e.fd, 1) IN
        IF Near1024(e.qz, z[1], z[2], 2) THEN "ok" ELSE "interpolated-z")
  ELSE "ok"

\* n evenly spaced points: fractions i/(n-1), the midpoint for n = 1, nothing for n <= 0
CheckEven(e) ==
  IF ~IntegerLengths(e.line) THEN "skip:irrational-arc-length"
  ELSE IF Len(e.pts) # (IF e.n < 0 THEN 0 ELSE e.n) THEN "evenly-spaced-count"
  ELSE IF \E i \in 1..Len(e.pts) :
            LET p == IF e.n = 1 THEN Interp(e.line, 1, 2) ELSE Interp(e.line, i-1, e.n-1) IN
            ~(Near1024(e.pts[i][1], p[1], p[3], 3) /\ Near1024(e.pts[i][2], p[2], p[3], 3)) THEN "evenly-spaced-position"
  ELSE "ok"

CheckSimplify(e) ==
  IF e.err = "skip-invalid-input" THEN "skip:invalid-input"
  ELSE IF e.err # "" THEN "ok"                              \* an error is an allowed outcome
  ELSE IF ~e.valid THEN "simplify-result-invalid"
  ELSE IF Len(e.kept) = 0 THEN "ok"                          \* collapsed: the documented empty result
  \* validity by the specification's own count (not only by the library's Validate): two distinct XY positions
  ELSE IF Cardinality({e.kept[i] : i \in 1..Len(e.kept)}) < 2 THEN "simplify-result-invalid"
  ELSE IF ~SimplifyOK(e.line, e.kept, e.tn, e.td) THEN "simplify-contract"
  ELSE "ok"

\* Polygon: every ring is simplified on its own; rings that collapse disappear (the shell collapsing empties the
\* polygon); the result is valid or an error.  The kept rings must match original rings in order.
\* A ring may only disappear if it collapses: Ramer-Douglas-Peucker on a closed ring keeps the start vertex and, if any
\* vertex is farther than t from it, the farthest one; the ring degenerates (fewer than four points) only when every
\* vertex lies within t of the line through two of its vertices (or of one vertex). A ring that is not thin in this
\* sense for any pair of its vertices cannot legitimately vanish.
CollapseOK(ring, tn, td) == \E a \in 1..Len(ring), b \in 1..Len(ring) : \A m \in 1..Len(ring) : WithinLine(ring[m], ring[a], ring[b], tn, td)
RECURSIVE RingsMatch(_,_,_,_,_,_)
RingsMatch(orig, kept, i, j, tn, td) ==
  IF i > Len(orig) THEN j > Len(kept)
  ELSE (j <= Len(kept) /\ SimplifyOK(orig[i], kept[j], tn, td) /\ RingsMatch(orig, kept, i+1, j+1, tn, td))
       \/ (i > 1 /\ CollapseOK(orig[i], tn, td) /\ RingsMatch(orig, kept, i+1, j, tn, td))
CheckSimplifyPoly(e) ==
  IF e.err = "skip-invalid-input" THEN "skip:invalid-input"
  ELSE IF e.err # "" THEN "ok"
  ELSE IF ~e.valid THEN "simplify-result-invalid"
  ELSE IF Len(e.keptrings) = 0 THEN (IF Len(e.rings) = 0 \/ CollapseOK(e.rings[1], e.tn, e.td) THEN "ok" ELSE "simplify-polygon-vanished")
  ELSE IF \E i \in 1..Len(e.keptrings) : Len(e.keptrings[i]) < 4 \/ e.keptrings[i][1] # e.keptrings[i][Len(e.keptrings[i])]
                                          \/ Cardinality({e.keptrings[i][k] : k \in 1..Len(e.keptrings[i])}) < 3 THEN "simplify-result-invalid"
  ELSE IF ~RingsMatch(e.rings, e.keptrings, 1, 1, e.tn, e.td) THEN "simplify-polygon-contract"
  ELSE "ok"

\* Densify of any geometry: element by element (LineString members and polygon rings in Dump order; a Point is an
\* element of one vertex, which Densify leaves alone)
CheckDensifyAny(e) ==
  IF ~e.ctsame THEN "densify-structure"
  ELSE IF Len(e.rings) # Len(e.keptrings) THEN "densify-structure"
  ELSE IF \E i \in 1..Len(e.rings) : Len(e.rings[i]) >= 1 /\ ~DensifyOK(e.rings[i], e.keptrings[i], e.dn, e.dd) THEN "densify-contract"
  ELSE IF \E i \in 1..Len(e.rings) : Len(e.rings[i]) = 0 /\ Len(e.keptrings[i]) # 0 THEN "densify-contract"
  ELSE "ok"
CheckDensify(e) ==
  IF ~DensifyOK(e.line, e.dense, e.dn, e.dd) THEN "densify-contract"
  ELSE IF e.ctsame # TRUE THEN "densify-coordinate-type" ELSE "ok"

\* +0 and -0 are the same number
IsZeroTok(t) == t \in {"0000000000000000", "8000000000000000"}
SameNum(a,b) == a = b \/ (IsZeroTok(a) /\ IsZeroTok(b))
CheckSnap(e) ==
  IF ~IsFiniteTok(e.x) THEN "skip:non-finite-input"
  ELSE IF ~IsFiniteTok(e.s) THEN "snap-produced-non-finite"
  ELSE IF ~SameNum(e.sneg, NegBits(e.s)) THEN "snap-not-odd"
  ELSE IF e.claim /\ ~SameNum(e.ss, e.s) THEN "snap-not-idempotent"
  ELSE "ok"

CheckSnapDec(e) == IF SnapNear(e.k, e.e, e.dp, e.sd, e.sg) THEN "ok" ELSE "snap-moved-more-than-half-a-step"

CheckOrient(e) ==
  IF ~e.revrev THEN "reverse-not-an-involution"
  ELSE IF e.valid # e.revvalid THEN "reverse-changes-validity"
  ELSE IF ~e.cwok \/ ~e.ccwok THEN "force-orientation-did-not-take"
  ELSE IF ~e.cwidem \/ ~e.ccwidem THEN "force-orientation-not-idempotent"
  ELSE IF ~e.sameverts THEN "force-orientation-changed-vertices"
  ELSE "ok"

Check(e) ==
  IF e.panic # "" THEN "panic"
  ELSE CASE e.kind = "interp" -> CheckInterp(e)
         [] e.kind = "even" -> CheckEven(e)
         [] e.kind = "simplify" -> CheckSimplify(e)
         [] e.kind = "simplifypoly" -> CheckSimplifyPoly(e)
         [] e.kind = "densify" -> CheckDensify(e)
         [] e.kind = "densifyany" -> CheckDensifyAny(e)
         [] e.kind = "snap" -> CheckSnap(e)
         [] e.kind = "snapdec" -> CheckSnapDec(e)
         [] e.kind = "orient" -> CheckOrient(e)
         [] OTHER -> "unknown-kind"

Init == sh \in 1..S /\ l = sh
Next == /\ l <= Len(Trace) /\ l' = l + S /\ sh' = sh
        /\ LET r == Check(Trace[l]) IN IF r = "ok" THEN TRUE ELSE PrintT(ToJson([k |-> "V", l |-> l, r |-> r]))
Spec == Init /\ [][Next]_vars
Done == PrintT(ToJson([k |-> "DONE", distinct |-> TLCGet("distinct"), want |-> Len(Trace) + S]))
=============================================================================
