---------------------------- MODULE Trace_Equality ----------------------------
(* Trace validation for C18: recorded ExactEquals results (no options,         *)
(* IgnoreOrder, both argument orders, reflexive calls, ToleranceXY) against    *)
(* Equality.tla.                                                               *)
EXTENDS Equality, Json, IOUtils

Trace == ndJsonDeserialize(IOEnv.VTRACE)
S == 64
VARIABLES sh, l
vars == <<sh, l>>

CheckPair(e) ==
  LET x == Eq(e.a, e.b) y == EqIO(e.a, e.b) IN
  IF e.eq # x THEN (IF x THEN "exact-equals-misses-identical" ELSE "exact-equals-accepts-different")
  ELSE IF e.eqrev # e.eq THEN "exact-equals-asymmetric"
  ELSE IF e.eqio # y THEN (IF y THEN "ignore-order-misses-reordering" ELSE "ignore-order-accepts-different")
  ELSE IF e.eqiorev # e.eqio THEN "ignore-order-asymmetric"
  ELSE IF ~e.eqaa \/ ~e.eqbb \/ ~e.eqioaa \/ ~e.eqiobb THEN "not-reflexive"
  ELSE "ok"

\* ToleranceXY(t) on two LineStrings with integer vertices: related iff every pair of corresponding vertices is within t
CheckTol(e) ==
  LET within == Len(e.p) = Len(e.q) /\ \A i \in 1..Len(e.p) :
                   (e.p[i][1]-e.q[i][1])*(e.p[i][1]-e.q[i][1]) + (e.p[i][2]-e.q[i][2])*(e.p[i][2]-e.q[i][2]) <= e.t2 IN
  IF e.eq # within THEN "tolerance" ELSE IF e.eqrev # e.eq THEN "tolerance-asymmetric" ELSE IF ~e.eqaa THEN "tolerance-not-reflexive" ELSE "ok"

\* IgnoreOrder together with ToleranceXY(t) on two MultiPoints: related iff some bijection pairs points within t
Near(p,q,t2) == (p[1]-q[1])*(p[1]-q[1]) + (p[2]-q[2])*(p[2]-q[2]) <= t2
CheckTolIO(e) ==
  LET want == Len(e.p) = Len(e.q) /\ Bij(Len(e.p), LAMBDA i, j : Near(e.p[i], e.q[j], e.t2)) IN
  IF ~e.eqaa \/ ~e.eqbb THEN "tolerance-ignore-order-not-reflexive"
  ELSE IF e.eq # want THEN (IF want THEN "tolerance-ignore-order-misses-matching" ELSE "tolerance-ignore-order-accepts-different")
  ELSE IF e.eqrev # e.eq THEN "tolerance-ignore-order-asymmetric"
  ELSE "ok"

\* Closed curves with integer vertices (successive vertices distinct), simple or not. Simplicity is decided by
\* Validity!LineSimple (exact segment intersection); only rings - closed and simple - may differ by the start vertex.
V == INSTANCE Validity
IntRot(a,b,o) == LET n == Len(a) IN \A i \in 0..(n-1) : a[i+1] = b[((i + o) % (n-1)) + 1]
CurveEqIO(a,b) ==
  /\ Len(a) = Len(b)
  /\ \/ a = b \/ a = RevSeq(b)
     \/ /\ V!LineSimple(a) /\ V!LineSimple(b)
        /\ \E o \in 1..(Len(a)-1) : IntRot(a,b,o) \/ IntRot(RevSeq(a),b,o)
CheckCurve(e) ==
  LET x == e.p = e.q  y == CurveEqIO(e.p, e.q) IN
  IF e.eq # x THEN (IF x THEN "exact-equals-misses-identical" ELSE "exact-equals-accepts-different")
  ELSE IF e.eqrev # e.eq THEN "exact-equals-asymmetric"
  ELSE IF e.eqio # y THEN (IF y THEN "ignore-order-misses-ring-rotation" ELSE "ignore-order-accepts-different-curve")
  ELSE IF e.eqiorev # e.eqio THEN "ignore-order-asymmetric"
  ELSE IF e.eqiom # y \/ e.eqiogc # y THEN "ignore-order-curve-differs-inside-collection"
  ELSE IF ~e.eqaa \/ ~e.eqbb \/ ~e.eqioaa \/ ~e.eqiobb THEN "not-reflexive"
  ELSE "ok"

Check(e) == IF e.panic # "" THEN "panic" ELSE IF e.kind = "pair" THEN CheckPair(e) ELSE IF e.kind = "curve" THEN CheckCurve(e) ELSE IF e.kind = "tolio" THEN CheckTolIO(e) ELSE CheckTol(e)

Init == sh \in 1..S /\ l = sh
Next == /\ l <= Len(Trace) /\ l' = l + S /\ sh' = sh
        /\ LET r == Check(Trace[l]) IN IF r = "ok" THEN TRUE ELSE PrintT(ToJson([k |-> "V", l |-> l, r |-> r]))
Spec == Init /\ [][Next]_vars
Done == PrintT(ToJson([k |-> "DONE", distinct |-> TLCGet("distinct"), want |-> Len(Trace) + S]))
=============================================================================
