----------------------------- MODULE MC_Envelope -----------------------------
(* (M) for C12: lattice laws of the envelope algebra over all envelopes of a  *)
(* small lattice: join is associative, commutative, idempotent with the empty *)
(* envelope as identity; Covers is the order of the join; Intersects and      *)
(* distance zero coincide; Contains is Covers of the point envelope.          *)
EXTENDS Envelope
CONSTANT N
Boxes == {<<>>} \cup {<<x0,y0,x1,y1>> : x0 \in 0..N, y0 \in 0..N, x1 \in 0..N, y1 \in 0..N}
Envs == {e \in Boxes : e = <<>> \/ (e[1] <= e[3] /\ e[2] <= e[4])}
VARIABLES a, b
Init == a \in Envs /\ b \in Envs
Next == UNCHANGED <<a, b>>
Spec == Init /\ [][Next]_<<a, b>>
Laws ==
  /\ Join(a,b) = Join(b,a) /\ Join(a,a) = a /\ Join(a,<<>>) = a
  /\ \A c \in Envs : Join(Join(a,b),c) = Join(a,Join(b,c))
  /\ (~IsEmptyE(a) /\ ~IsEmptyE(b)) => (Covers(a,b) <=> Join(a,b) = a)
  /\ (~IsEmptyE(a) /\ ~IsEmptyE(b)) => (Intersects(a,b) <=> Dist2(a,b) = 0)
  /\ Intersects(a,b) = Intersects(b,a)
  /\ (~IsEmptyE(a) /\ ~IsEmptyE(b)) => Covers(Join(a,b),a) /\ Covers(Join(a,b),b)
  /\ (~IsEmptyE(b)) => (ContainsP(a,<<b[1],b[2]>>) <=> Covers(a, OfPoint(<<b[1],b[2]>>)))
  /\ Area(a) >= 0 /\ (Kind(a) = "rectangle" <=> Area(a) > 0)
=============================================================================
