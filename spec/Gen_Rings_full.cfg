SPECIFICATION Spec
CONSTANTS
  MinK = 3
  MaxK = 6
  Step = 1
CHECK_DEADLOCK FALSE
