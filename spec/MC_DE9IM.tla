------------------------------ MODULE MC_DE9IM ------------------------------
(* (M) for C02: every DE-9IM matrix (4^9) against the named predicates.      *)
(* The dualities claimed by the property hold in the reference model:        *)
(* Contains(a,b) = Within(b,a), Covers(a,b) = CoveredBy(b,a),                *)
(* Disjoint = ~Intersects, and the predicates commute with transposition as  *)
(* documented.  The matrix is built one entry per step so that the 4^9       *)
(* complete matrices are spread over all workers.                            *)
EXTENDS DE9IM
Chars == {"F","0","1","2"}
VARIABLE x
Init == x = <<>>
Next == Len(x) < 9 /\ \E c \in Chars : x' = Append(x, c)
Spec == Init /\ [][Next]_x
Dims == {-1,0,1,2}
T(y) == <<y[1],y[4],y[7],y[2],y[5],y[8],y[3],y[6],y[9]>>
Duality == Len(x) = 9 =>
   LET t == T(x) IN
   /\ PredX("contains",x,0,0) = PredX("within",t,0,0)
   /\ PredX("covers",x,0,0) = PredX("coveredby",t,0,0)
   /\ PredX("disjoint",x,0,0) = ~PredX("intersects",x,0,0)
   /\ PredX("disjoint",x,0,0) = PredX("disjoint",t,0,0)
   /\ PredX("touches",x,0,0) = PredX("touches",t,0,0)
   /\ (PredX("contains",x,0,0) => PredX("covers",x,0,0))
   /\ (PredX("within",x,0,0) => PredX("coveredby",x,0,0))
   /\ (PredX("disjoint",x,0,0) => ~PredX("touches",x,0,0) /\ ~PredX("covers",x,0,0) /\ ~PredX("coveredby",x,0,0))
   /\ T(t) = x
   /\ \A da \in Dims, db \in Dims :
        /\ PredX("equals",x,da,db) = PredX("equals",t,db,da)
        /\ PredX("crosses",x,da,db) = PredX("crosses",t,db,da)
        /\ PredX("overlaps",x,da,db) = PredX("overlaps",t,db,da)
        /\ (PredX("disjoint",x,da,db) => ~PredX("crosses",x,da,db) /\ ~PredX("overlaps",x,da,db))
=============================================================================
