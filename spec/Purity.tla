------------------------------- MODULE Purity -------------------------------
(* C10: geometries are immutable values.  Threads call operations on shared   *)
(* values.  Begin records the digests of the operands, End is enabled only if *)
(* the operands still have the digests they had when the call began and the   *)
(* result equals the one memoised for the same operation on the same operand  *)
(* digests.  No action writes store; there is no action for a race report.    *)
EXTENDS Integers, Sequences, FiniteSets, TLC

CONSTANTS Threads, Values, Ops, Digests
VARIABLES store,     \* value -> digest
          pending,   \* thread -> <<>> or [op, args]
          memo       \* <<op, argdigests>> -> result digest
vars == <<store, pending, memo>>

\* the result of an operation is a function of the operand digests only (what "pure" means)
Result(op, ds) == <<op, ds>>

Init == /\ store \in [Values -> Digests]
        /\ pending = [t \in Threads |-> <<>>]
        /\ memo = [k \in {} |-> <<>>]
Begin(t) == /\ pending[t] = <<>>
            /\ \E op \in Ops, a \in Values, b \in Values : pending' = [pending EXCEPT ![t] = [op |-> op, args |-> <<a,b>>, pre |-> <<store[a], store[b]>>]]
            /\ UNCHANGED <<store, memo>>
End(t) == /\ pending[t] # <<>>
          /\ LET p == pending[t] k == <<p.op, p.pre>> IN
               /\ <<store[p.args[1]], store[p.args[2]]>> = p.pre         \* operands unchanged
               /\ (k \in DOMAIN memo => memo[k] = Result(p.op, p.pre))    \* deterministic
               /\ memo' = [x \in DOMAIN memo \cup {k} |-> IF x = k THEN Result(p.op, p.pre) ELSE memo[x]]
          /\ pending' = [pending EXCEPT ![t] = <<>>]
          /\ UNCHANGED store
Next == \E t \in Threads : Begin(t) \/ End(t)
Spec == Init /\ [][Next]_vars

StoreConstant == [][store' = store]_vars
MemoFunctional == \A k \in DOMAIN memo : memo[k] = Result(k[1], k[2])
\* every pending call can complete: no interleaving disables End (the model has no blocking)
NoStuck == \A t \in Threads : pending[t] # <<>> => ENABLED End(t)
=============================================================================
