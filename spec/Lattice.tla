------------------------------ MODULE Lattice ------------------------------
(* Exact predicates on the integer lattice.  A lattice point is <<x,y>>;    *)
(* a point of the plane is a homogeneous triple <<X,Y,W>>, W > 0, reduced   *)
(* by gcd, so every vertex of an arrangement of lattice segments is         *)
(* representable and every predicate is an integer sign computation.        *)
(* TLC integers are 32 bit and overflow is an error: see DESIGN.md 4.4 for  *)
(* the lattice bound of each user of this module.                           *)
EXTENDS Integers, Sequences, FiniteSets, TLC

Abs(x) == IF x < 0 THEN -x ELSE x
Sgn(x) == IF x > 0 THEN 1 ELSE IF x < 0 THEN -1 ELSE 0
Min2(a,b) == IF a < b THEN a ELSE b
Max2(a,b) == IF a > b THEN a ELSE b
RECURSIVE Gcd(_,_)
Gcd(a,b) == IF b = 0 THEN a ELSE Gcd(b, a % b)

Norm(p) == LET q == IF p[3] < 0 THEN <<-p[1],-p[2],-p[3]>> ELSE p
               g == Gcd(Gcd(Abs(q[1]),Abs(q[2])),q[3])
           IN IF g <= 1 THEN q ELSE <<q[1] \div g, q[2] \div g, q[3] \div g>>
H(p) == <<p[1],p[2],1>>

Cross(ax,ay,bx,by) == ax*by - ay*bx
Dot(ax,ay,bx,by) == ax*bx + ay*by

\* orientation of the homogeneous point p with respect to the directed lattice line a -> b
OrientH(a,b,p) == Sgn((b[1]-a[1])*(p[2]-a[2]*p[3]) - (b[2]-a[2])*(p[1]-a[1]*p[3]))
InBoxH(a,b,p) == /\ Min2(a[1],b[1])*p[3] <= p[1] /\ p[1] <= Max2(a[1],b[1])*p[3]
                 /\ Min2(a[2],b[2])*p[3] <= p[2] /\ p[2] <= Max2(a[2],b[2])*p[3]
OnSegH(s,p) == OrientH(s[1],s[2],p) = 0 /\ InBoxH(s[1],s[2],p)
OnLineH(s,p) == OrientH(s[1],s[2],p) = 0
\* orientation of three lattice points
Or3(a,b,c) == Sgn(Cross(b[1]-a[1], b[2]-a[2], c[1]-a[1], c[2]-a[2]))

\* the single common point of two non-parallel lattice segments, as a set (empty if none)
SegInter(s,t) ==
  LET a == s[1] b == s[2] c == t[1] d == t[2]
      den == Cross(b[1]-a[1], b[2]-a[2], d[1]-c[1], d[2]-c[2])
      tn == Cross(c[1]-a[1], c[2]-a[2], d[1]-c[1], d[2]-c[2])
      un == Cross(c[1]-a[1], c[2]-a[2], b[1]-a[1], b[2]-a[2])
  IN IF den = 0 THEN {}
     ELSE LET sd == Sgn(den) tt == tn*sd uu == un*sd dd == den*sd IN
          IF tt < 0 \/ tt > dd \/ uu < 0 \/ uu > dd THEN {}
          ELSE {Norm(<<a[1]*dd + tt*(b[1]-a[1]), a[2]*dd + tt*(b[2]-a[2]), dd>>)}

Collinear(s,t) == OrientH(s[1],s[2],H(t[1])) = 0 /\ OrientH(s[1],s[2],H(t[2])) = 0
\* collinear segments sharing more than a single point
Overlap1D(s,t) == /\ Collinear(s,t)
                  /\ LET dx == s[2][1]-s[1][1] dy == s[2][2]-s[1][2]
                         qs == Dot(dx,dy,dx,dy)
                         pt == Dot(t[1][1]-s[1][1], t[1][2]-s[1][2], dx, dy)
                         qt == Dot(t[2][1]-s[1][1], t[2][2]-s[1][2], dx, dy)
                     IN Max2(0, Min2(pt,qt)) < Min2(qs, Max2(pt,qt))
\* isolated common points of two segments (end points when collinear)
CommonPts(s,t) == IF Collinear(s,t)
                  THEN {H(p) : p \in {q \in {s[1],s[2],t[1],t[2]} : OnSegH(s,H(q)) /\ OnSegH(t,H(q))}}
                  ELSE SegInter(s,t)
Meets(s,t) == CommonPts(s,t) # {}

\* order of homogeneous points along the lattice segment s
Param(s,p) == (p[1]-s[1][1]*p[3])*(s[2][1]-s[1][1]) + (p[2]-s[1][2]*p[3])*(s[2][2]-s[1][2])
Before(s,p,q) == Param(s,p)*q[3] < Param(s,q)*p[3]
Mid(u,v) == Norm(<<u[1]*v[3]+v[1]*u[3], u[2]*v[3]+v[2]*u[3], 2*u[3]*v[3]>>)

SegsOfLine(ls) == {<<ls[i], ls[i+1]>> : i \in {j \in 1..(Len(ls)-1) : ls[j] # ls[j+1]}}
SeqSet(s) == {s[i] : i \in 1..Len(s)}
RECURSIVE Dedup(_)
Dedup(s) == IF Len(s) <= 1 THEN s
            ELSE LET r == Dedup(Tail(s)) IN IF s[1] = r[1] THEN r ELSE <<s[1]>> \o r
RECURSIVE SumSeq(_)
SumSeq(s) == IF s = <<>> THEN 0 ELSE Head(s) + SumSeq(Tail(s))
=============================================================================
