---------------------------- MODULE Trace_Overlay ----------------------------
(* Trace validation for C01: recorded Union / Intersection / Difference /    *)
(* SymmetricDifference / UnaryUnion / UnionMany results against Overlay.tla. *)
EXTENDS Overlay, Validity, DCEL, Json, IOUtils

Trace == ndJsonDeserialize(IOEnv.VTRACE)
S == 64
VARIABLES sh, l
vars == <<sh, l>>

Check(e) ==
  IF e.panic # "" THEN "panic"
  ELSE IF ~PartsValid(e.a) \/ ~PartsValid(e.b) THEN "skip:invalid-operand"
  ELSE LET ga == Merge(e.a) gb == Merge(e.b) IN
  IF e.gp /\ ~GeneralPosition(ga,gb) THEN "skip:not-general-position"
  ELSE IF e.kind = "dcel" THEN CheckDCEL(e.dcel, ga, gb)
  ELSE IF e.err # "" THEN "error-returned"
  ELSE IF ~e.rvalid THEN "result-invalid"
  ELSE CheckOverlay(ga, gb, e.op, e.res, e.rtype)

Init == sh \in 1..S /\ l = sh
Next == /\ l <= Len(Trace) /\ l' = l + S /\ sh' = sh
        /\ LET r == Check(Trace[l]) IN IF r = "ok" THEN TRUE ELSE PrintT(ToJson([k |-> "V", l |-> l, r |-> r]))
Spec == Init /\ [][Next]_vars
Done == PrintT(ToJson([k |-> "DONE", distinct |-> TLCGet("distinct"), want |-> Len(Trace) + S]))
=============================================================================
