---------------------------- MODULE Trace_Overlay ----------------------------
(* Trace validation for C01: recorded Union / Intersection / Difference /    *)
(* SymmetricDifference / UnaryUnion / UnionMany results against Overlay.tla. *)
EXTENDS Overlay, Validity, DCEL, Json, IOUtils

Trace == ndJsonDeserialize(IOEnv.VTRACE)
S == 64
VARIABLES sh, l
vars == <<sh, l>>

\* Boolean-algebra laws on lattices too large for the exact arrangement (|c| <= 2^10): the results are opaque, the
\* laws relate them.  Areas are logged as round(area * 4); eq flags are the library's Equals on pairs of results.
\*   ar = <<A, B, AuB, BuA, AnB, BnA, A-B, B-A, AxB, BxA, (A-B)u(AnB), AuA>>
\* (A = (A-B) u (A n B) is judged through its area only: the re-composition feeds computed crossing points back in,
\* which lie within an ulp of the edge they came from - near-degenerate inputs the property excludes)
NearI(x,y,t) == x - y <= t /\ y - x <= t
CheckLaws(e) ==
  LET ar == e.areas TT == 3 + e.areas[1] \div 1000000 + e.areas[2] \div 1000000 IN
  IF e.err # "" THEN "law-error:" \o e.err
  ELSE IF ~e.valid THEN "law-result-invalid"
  ELSE IF ~e.eq[1] THEN "union-not-commutative"
  ELSE IF ~e.eq[2] THEN "intersection-not-commutative"
  ELSE IF ~e.eq[3] THEN "symmetric-difference-not-commutative"
  ELSE IF ~e.eq[4] THEN "union-not-idempotent"
  ELSE IF ~NearI(ar[3], ar[4], TT) \/ ~NearI(ar[5], ar[6], TT) \/ ~NearI(ar[9], ar[10], TT) THEN "area-not-commutative"
  ELSE IF ~NearI(ar[3] + ar[5], ar[1] + ar[2], 2*TT) THEN "inclusion-exclusion"
  ELSE IF ~NearI(ar[7] + ar[5], ar[1], 2*TT) \/ ~NearI(ar[8] + ar[5], ar[2], 2*TT) THEN "difference-area"
  ELSE IF ~NearI(ar[9], ar[7] + ar[8], 2*TT) THEN "symmetric-difference-area"
  ELSE IF ~NearI(ar[11], ar[1], TT) \/ ~NearI(ar[12], ar[1], TT) THEN "recomposition-area"
  ELSE "ok"

Check(e) ==
  IF e.panic # "" THEN "panic"
  ELSE IF e.kind = "laws" THEN CheckLaws(e)
  ELSE IF ~PartsValid(e.a) \/ ~PartsValid(e.b) THEN "skip:invalid-operand"
  ELSE LET ga == Merge(e.a) gb == Merge(e.b) IN
  IF e.gp /\ ~GeneralPosition(ga,gb) THEN "skip:not-general-position"
  ELSE IF e.kind = "dcel" THEN CheckDCEL(e.dcel, ga, gb)
  ELSE IF e.err # "" THEN "error-returned"
  ELSE IF ~e.rvalid THEN "result-invalid"
  ELSE CheckOverlay(ga, gb, e.op, e.res, e.rtype)

Init == sh \in 1..S /\ l = sh
Next == /\ l <= Len(Trace) /\ l' = l + S /\ sh' = sh
        /\ LET r == Check(Trace[l]) IN IF r = "ok" THEN TRUE ELSE PrintT(ToJson([k |-> "V", l |-> l, r |-> r]))
Spec == Init /\ [][Next]_vars
Done == PrintT(ToJson([k |-> "DONE", distinct |-> TLCGet("distinct"), want |-> Len(Trace) + S]))
=============================================================================
