SPECIFICATION Spec
INVARIANT Inv
CHECK_DEADLOCK FALSE
