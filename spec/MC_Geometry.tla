---------------------------- MODULE MC_Geometry ----------------------------
(* (M) for the exact-geometry reference model itself (C02 C03 C09 C14 C15):   *)
(* the clauses of the listed properties that are laws - not facts about one  *)
(* input - are checked by TLC on the specification's own definitions, over   *)
(* every pair of shapes of a small universe (points, segments, triangles in  *)
(* both orientations and every ring start, two-segment lines, the square     *)
(* with a hole), so that the oracle the traces are judged against is known   *)
(* to have them:                                                              *)
(*   C02  Relate(b,a) is the transpose of Relate(a,b); the named predicates  *)
(*        are mutually consistent (within/contains, covers/coveredBy, equals *)
(*        symmetric, disjoint = not intersects); II dimension bounded by the *)
(*        operands' dimensions                                               *)
(*   C09  intersection is symmetric; the exact squared distance of disjoint  *)
(*        shapes is symmetric, positive, and never below the distance of the *)
(*        envelopes                                                          *)
(*   C14  twice the area is unchanged by the ring start and by reversal, the *)
(*        orientation sign flips under reversal, the centroid is unchanged   *)
(*        by ring start / reversal and lies in the span of the vertices      *)
(*   C03  simplicity of a line and validity of a ring do not depend on the   *)
(*        direction, the ring start, a translation or an axis reflection     *)
(*   C15  the lineal boundary follows the mod-2 rule: closed lines have none,*)
(*        an open line has its two end points; every boundary point of a     *)
(*        shape relates to the shape as boundary                             *)
EXTENDS Measures, Distance, Validity
CONSTANT N

Pts == {<<x,y>> : x \in 0..N, y \in 0..N}
Lt(p,q) == p[1] < q[1] \/ (p[1] = q[1] /\ p[2] < q[2])
Flat(p,l,a) == [pts |-> p, lines |-> l, areas |-> a]
TriSet == {t \in Pts \X Pts \X Pts : Lt(t[1],t[2]) /\ Lt(t[2],t[3]) /\ Or3(t[1],t[2],t[3]) # 0}
Ring(t,k) == LET r == [i \in 1..3 |-> t[((i - 1 + k) % 3) + 1]] IN <<r[1],r[2],r[3],r[1]>>
RevR(r) == [i \in 1..Len(r) |-> r[Len(r) + 1 - i]]
\* the universe, as a sequence of flat geometries (thinned by Step to keep the pair count in the minutes range)
PointsU == {Flat(<<p>>, <<>>, <<>>) : p \in Pts}
SegsU   == {Flat(<<>>, <<<<s[1],s[2]>>>>, <<>>) : s \in {w \in Pts \X Pts : Lt(w[1],w[2])}}
TrisU   == {Flat(<<>>, <<>>, <<<<Ring(t,0)>>>>) : t \in TriSet}
LinesU  == {Flat(<<>>, <<<<w[1],w[2],w[3]>>>>, <<>>) : w \in {v \in Pts \X Pts \X Pts : v[1] # v[2] /\ v[2] # v[3] /\ Lt(v[1],v[3])}}
ClosedU == {Flat(<<>>, <<Ring(t,0)>>, <<>>) : t \in TriSet}
Universe == PointsU \cup SegsU \cup TrisU \cup LinesU \cup ClosedU

\* two levels (TLC evaluates invariants of initial states on one thread; the pairs are successor states, spread over the workers)
VARIABLES a, b, ph
vars == <<a, b, ph>>
Init == a \in Universe /\ b = a /\ ph = "first"
Next == ph = "first" /\ ph' = "pair" /\ a' = a /\ b' \in Universe
Spec == Init /\ [][Next]_vars

\* ---- C02
M(x,y) == Relate(x,y)
TransposeLaw0 == M(b,a) = Transpose(M(a,b))
P(name,x,y) == Pred(name, M(x,y), DimG(x), DimG(y))
PredLaws0 == /\ P("within",a,b) = P("contains",b,a)
            /\ P("coveredby",a,b) = P("covers",b,a)
            /\ P("equals",a,b) = P("equals",b,a)
            /\ P("disjoint",a,b) = ~P("intersects",a,b)
            /\ P("touches",a,b) = P("touches",b,a)
            /\ (P("equals",a,b) => P("within",a,b) /\ P("contains",a,b))
            /\ (P("within",a,b) => P("coveredby",a,b))
            /\ P("equals",a,a)
DimLaw0 == LET c == Ch(M(a,b),1) IN c = "F" \/ (c = "0" /\ TRUE) \/ (c = "1" /\ DimG(a) >= 1 /\ DimG(b) >= 1) \/ (c = "2" /\ DimG(a) = 2 /\ DimG(b) = 2)
\* ---- C09
\* (D2 is the distance of DISJOINT shapes - the minimum over vertex / segment pairs; intersecting shapes are decided by
\* the matrix first, exactly as Trace_Dist does)
DistLaws0 == SpecIntersects(a,b) = SpecIntersects(b,a) /\
            (SpecIntersects(a,b) \/
             LET d == D2(a,b) e == D2(b,a) IN
             /\ d[1] * e[2] = e[1] * d[2]
             /\ d[1] > 0
             /\ d[1] >= BoxD2(EnvOf(a),EnvOf(b)) * d[2])
\* ---- C14 (on a alone, when areal)
AreaLaws0 == Len(a.areas) = 0 \/
            LET r == a.areas[1][1] t == <<r[1],r[2],r[3]>> IN
            \A k \in 0..2 :
              LET g1 == Flat(<<>>, <<>>, <<<<Ring(t,k)>>>>) g2 == Flat(<<>>, <<>>, <<<<RevR(Ring(t,k))>>>>)
                  c0 == ArealCentroid(a) c1 == ArealCentroid(g1) c2 == ArealCentroid(g2) IN
              /\ Area2(g1) = Area2(a) /\ Area2(g2) = Area2(a) /\ Area2(a) > 0
              /\ Orient(g1) = -Orient(g2) /\ Orient(g1) # 0
              /\ c1[1]*c0[3] = c0[1]*c1[3] /\ c1[2]*c0[3] = c0[2]*c1[3]
              /\ c2[1]*c0[3] = c0[1]*c2[3] /\ c2[2]*c0[3] = c0[2]*c2[3]
              /\ \E v \in SeqSet(r) : v[1]*c0[3] <= c0[1] /\ \E w \in SeqSet(r) : w[1]*c0[3] >= c0[1]
\* ---- C15
BoundaryLaws0 == /\ \A i \in 1..Len(a.lines) : (~IsOpenLine(a.lines[i]) => LineBoundary(Flat(<<>>, <<a.lines[i]>>, <<>>)) = {})
                /\ \A i \in 1..Len(a.lines) : (IsOpenLine(a.lines[i]) =>
                       LineBoundary(Flat(<<>>, <<a.lines[i]>>, <<>>)) = {a.lines[i][1], a.lines[i][Len(a.lines[i])]})
                /\ \A p \in LineBoundary(a) : Loc(a, H(p)) = "B"
                /\ \A s \in AreaSegs(a) : Loc(a, H(s[1])) = "B"
\* ---- C03: simplicity / validity do not depend on the direction, the ring start, an integer translation or an axis reflection
Tr(l,dx,dy) == [i \in 1..Len(l) |-> <<l[i][1]+dx, l[i][2]+dy>>]
Refl(l) == [i \in 1..Len(l) |-> <<N - l[i][1], l[i][2]>>]
Swap(l) == [i \in 1..Len(l) |-> <<l[i][2], l[i][1]>>]
ValidityLaws0 ==
  /\ \A i \in 1..Len(a.lines) : LET l == a.lines[i] IN
        /\ LineSimple(RevR(l)) = LineSimple(l) /\ LineSimple(Tr(l,3,-2)) = LineSimple(l)
        /\ LineSimple(Refl(l)) = LineSimple(l) /\ LineSimple(Swap(l)) = LineSimple(l)
        /\ (~IsOpenLine(l) /\ Len(l) = 4 => \A k \in 0..2 : LineSimple(Ring(<<l[1],l[2],l[3]>>,k)) = LineSimple(l))
  /\ \A i \in 1..Len(a.areas) : LET r == a.areas[i][1] t == <<r[1],r[2],r[3]>> IN
        \A k \in 0..2 : PolyValid(<<Ring(t,k)>>) /\ PolyValid(<<RevR(Ring(t,k))>>) /\ PolyValid(<<Tr(Ring(t,k),5,7)>>) /\ PolyValid(<<Refl(Ring(t,k))>>)
\* the laws are stated about pairs
TransposeLaw == ph = "first" \/ TransposeLaw0
PredLaws == ph = "first" \/ PredLaws0
DimLaw == ph = "first" \/ DimLaw0
DistLaws == ph = "first" \/ DistLaws0
AreaLaws == ph = "first" \/ AreaLaws0
BoundaryLaws == ph = "first" \/ BoundaryLaws0
ValidityLaws == ph = "pair" \/ ValidityLaws0
=============================================================================
