------------------------------ MODULE Trace_Hull ------------------------------
(* Trace validation for C13.                                                 *)
EXTENDS Hull, Json, IOUtils

Trace == ndJsonDeserialize(IOEnv.VTRACE)
S == 64
VARIABLES sh, l
vars == <<sh, l>>

AllPts(parts) == UNION {CtrlPts(parts[i]) : i \in 1..Len(parts)}

CheckRect(rc, r, which) ==
  \* rc = [kind, c (scaled corners), an (floor(area*1024)), wn (floor(min side^2 * 1024))]
  IF rc.kind # "poly" THEN "rect-kind"
  ELSE IF Len(rc.c) # 5 \/ rc.c[1] # rc.c[5] THEN "rect-ring"
  ELSE IF ~RectCovers(rc.c, SeqSet(r)) THEN "rect-not-covering"
  ELSE IF ~RectAligned(rc.c, r) THEN "rect-not-edge-aligned"
  ELSE IF which = "area" /\ ~ValNear(rc.an, MinArea(r)) THEN "rect-area-not-minimal"
  ELSE IF which = "width" /\ ~ValNear(rc.wn, MinW2(r)) THEN "rect-width-not-minimal"
  ELSE "ok"

\* General-position float images (arbitrary rotation, non-dyadic scale): exact collinearity does not survive the map,
\* so only the covering claims are made - the hull's vertices are control points, the hull is valid and covers every
\* control point (in the lattice frame, where a point the float hull left out by 1e-13 lies exactly on an edge), the
\* rotated rectangles cover the hull to within the rectangle tolerance.
OnSeg2(a,b,p) == Or3(a,b,p) = 0 /\ Min2(a[1],b[1]) <= p[1] /\ p[1] <= Max2(a[1],b[1]) /\ Min2(a[2],b[2]) <= p[2] /\ p[2] <= Max2(a[2],b[2])
CheckGP(e) ==
  LET P == AllPts(e.g) hp == e.hull.pts IN
  IF P = {} THEN (IF e.hull.kind = "empty" THEN "ok" ELSE "hull-kind")
  ELSE IF ~(SeqSet(hp) \subseteq P) THEN "hull-vertex-is-not-a-control-point"
  ELSE IF e.hull.kind = "point" THEN (IF P = SeqSet(hp) THEN "ok" ELSE "hull-not-covering")
  ELSE IF e.hull.kind = "line" THEN (IF Len(hp) = 2 /\ \A p \in P : OnSeg2(hp[1], hp[2], p) THEN "ok" ELSE "hull-not-covering")
  ELSE IF e.hull.kind # "poly" THEN "hull-kind"
  ELSE IF ~e.hvalid THEN "hull-invalid"
  ELSE IF \E p \in P : LocPoly(<<hp>>, H(p)) = "E" THEN "hull-not-covering"
  ELSE IF e.rects /\ e.ra.kind = "poly" /\ Len(e.ra.c) # 5 THEN "area-rect-ring"
  ELSE IF e.rects /\ e.rw.kind = "poly" /\ Len(e.rw.c) # 5 THEN "width-rect-ring"
  ELSE IF e.rects /\ e.ra.kind = "poly" /\ ~RectCovers(e.ra.c, P) THEN "area-rect-not-covering"
  ELSE IF e.rects /\ e.rw.kind = "poly" /\ ~RectCovers(e.rw.c, P) THEN "width-rect-not-covering"
  ELSE "ok"

Check(e) ==
  IF e.panic # "" THEN "panic"
  ELSE IF e.gp THEN CheckGP(e)
  ELSE LET P == AllPts(e.g) h == CheckHullP(P, e.hull) IN
  IF h # "ok" THEN h
  ELSE IF Cardinality(P) \in 1..12 /\ SeqSet(e.hull.pts) # SpecHullSet(P) THEN "hull-not-the-extreme-points"
  ELSE IF e.hull.kind = "poly" /\ ~e.hvalid THEN "hull-invalid"
  ELSE IF e.hull2 # e.hull THEN "hull-not-idempotent"
  ELSE IF e.hullp.kind # e.hull.kind \/ SeqSet(e.hullp.pts) # SeqSet(e.hull.pts) THEN "hull-depends-on-order-or-multiplicity"
  ELSE IF e.hull.kind # "poly" THEN
       (IF e.ra.kind # e.hull.kind \/ e.rw.kind # e.hull.kind THEN "rect-degenerate-kind" ELSE "ok")
  ELSE IF ~e.rects THEN "ok"
  ELSE LET a == CheckRect(e.ra, e.hull.pts, "area") IN IF a # "ok" THEN "area-" \o a
  ELSE LET w == CheckRect(e.rw, e.hull.pts, "width") IN IF w # "ok" THEN "width-" \o w ELSE "ok"

Init == sh \in 1..S /\ l = sh
Next == /\ l <= Len(Trace) /\ l' = l + S /\ sh' = sh
        /\ LET r == Check(Trace[l]) IN IF r = "ok" THEN TRUE ELSE PrintT(ToJson([k |-> "V", l |-> l, r |-> r]))
Spec == Init /\ [][Next]_vars
Done == PrintT(ToJson([k |-> "DONE", distinct |-> TLCGet("distinct"), want |-> Len(Trace) + S]))
=============================================================================
