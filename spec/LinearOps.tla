------------------------------ MODULE LinearOps ------------------------------
(* C17: contracts of Densify, Simplify, InterpolatePoint,                     *)
(* InterpolateEvenlySpacedPoints, SnapToGrid, Reverse, ForceCW / ForceCCW     *)
(* stated with exact integer / rational arithmetic.  Lines are sequences of   *)
(* lattice points <<x,y>>; interpolation uses lines whose segment lengths are *)
(* integers (axis-aligned and Pythagorean steps), so arc length is rational.  *)
EXTENDS Integers, Sequences, FiniteSets, TLC

Abs(x) == IF x < 0 THEN -x ELSE x
Min2(a,b) == IF a < b THEN a ELSE b
Max2(a,b) == IF a > b THEN a ELSE b
RECURSIVE IsqrtB(_,_,_)
IsqrtB(n,lo,hi) == IF lo >= hi THEN lo ELSE LET m == (lo + hi + 1) \div 2 IN IF m*m <= n THEN IsqrtB(n,m,hi) ELSE IsqrtB(n,lo,m-1)
Isqrt(n) == IsqrtB(n, 0, 46340)
D2(p,q) == (p[1]-q[1])*(p[1]-q[1]) + (p[2]-q[2])*(p[2]-q[2])
SegLen(l,i) == Isqrt(D2(l[i], l[i+1]))
IntegerLengths(l) == \A i \in 1..(Len(l)-1) : SegLen(l,i)*SegLen(l,i) = D2(l[i], l[i+1])
RECURSIVE Cum(_,_)
Cum(l,i) == IF i = 0 THEN 0 ELSE Cum(l,i-1) + SegLen(l,i)       \* arc length up to vertex i+1
Total(l) == Cum(l, Len(l)-1)

\* ---- interpolation at the fraction fn/fd (fd > 0), clamped to [0,1]
\* the point at arc length s = sn/sd on l, as <<xnum, ynum, den>> (den > 0)
RECURSIVE PointAt(_,_,_,_)
PointAt(l,sn,sd,i) ==
  IF i = Len(l) - 1 \/ sn <= Cum(l,i)*sd
  THEN LET L == SegLen(l,i) a == l[i] b == l[i+1] off == sn - Cum(l,i-1)*sd IN      \* offset into segment i, times sd
       IF L = 0 THEN <<a[1], a[2], 1>>
       ELSE <<a[1]*sd*L + off*(b[1]-a[1]), a[2]*sd*L + off*(b[2]-a[2]), sd*L>>
  ELSE PointAt(l,sn,sd,i+1)
Interp(l,fn,fd) == LET cn == IF fn < 0 THEN 0 ELSE IF fn > fd THEN fd ELSE fn IN
                   IF Len(l) = 1 THEN <<l[1][1], l[1][2], 1>> ELSE PointAt(l, cn*Total(l), fd, 1)
\* logged q = round(v * 1024) against the rational num/den
Near1024(q,num,den,slack) == Abs(q*den - num*1024) <= slack*den

\* ---- Simplify: kept is a subsequence of l (as index list), same end points, dropped vertices within t = tn/td of the
\* line through the bracketing kept vertices (distance to the point when they coincide)
Cross(a,b,p) == (b[1]-a[1])*(p[2]-a[2]) - (b[2]-a[2])*(p[1]-a[1])
WithinLine(p,a,b,tn,td) == IF a = b THEN D2(p,a)*td*td <= tn*tn
                           ELSE Cross(a,b,p)*Cross(a,b,p)*td*td <= tn*tn*D2(a,b)
\* match the kept vertices greedily against l: returns the index list or <<>> if kept is not a subsequence
RECURSIVE SubIdx(_,_,_,_)
SubIdx(l,kept,i,j) == IF j > Len(kept) THEN <<>>
                      ELSE IF i > Len(l) THEN <<0>>
                      ELSE IF l[i] = kept[j] /\ (j < Len(kept) \/ i = Len(l)) THEN <<i>> \o SubIdx(l,kept,i+1,j+1)
                      ELSE SubIdx(l,kept,i+1,j)
SimplifyOK(l,kept,tn,td) ==
  LET idx == SubIdx(l,kept,1,1) IN
  /\ Len(kept) >= 1 /\ Len(idx) = Len(kept) /\ \A k \in 1..Len(idx) : idx[k] # 0
  /\ idx[1] = 1 /\ idx[Len(idx)] = Len(l)
  /\ \A k \in 1..(Len(idx)-1) : \A m \in (idx[k]+1)..(idx[k+1]-1) : WithinLine(l[m], l[idx[k]], l[idx[k+1]], tn, td)

\* ---- Densify with maximum distance dn/dd: result r has scaled ordinates (x DS)
DS == 256
OnSegScaled(q,a,b) == /\ Abs((b[1]-a[1])*(q[2]-a[2]*DS) - (b[2]-a[2])*(q[1]-a[1]*DS)) <= 2*(Abs(b[1]-a[1]) + Abs(b[2]-a[2]))
                      /\ Min2(a[1],b[1])*DS - 2 <= q[1] /\ q[1] <= Max2(a[1],b[1])*DS + 2
                      /\ Min2(a[2],b[2])*DS - 2 <= q[2] /\ q[2] <= Max2(a[2],b[2])*DS + 2
Scaled(p) == <<p[1]*DS, p[2]*DS>>
Param(q,a,b) == (q[1]-a[1]*DS)*(b[1]-a[1]) + (q[2]-a[2]*DS)*(b[2]-a[2])
\* the gap between two consecutive result points is at most d (in scaled units, rounded up, plus rounding slack)
GapOK(p,q,dn,dd) == LET g == (dn*DS) \div dd + 4 IN g >= 30000 \/ D2(p,q) <= g*g
\* walk r: every original vertex appears in order, the points in between lie on the segment, in order, and no gap exceeds d
RECURSIVE DensifyWalk(_,_,_,_,_,_)
DensifyWalk(l,r,i,j,dn,dd) ==          \* i: current original segment (vertex i -> i+1), j: position in r of vertex i
  IF i = Len(l) THEN j = Len(r)
  ELSE LET a == l[i] b == l[i+1]
           nxt == IF \E k \in (j+1)..Len(r) : r[k] = Scaled(b) THEN CHOOSE k \in (j+1)..Len(r) : r[k] = Scaled(b) /\ \A m \in (j+1)..(k-1) : r[m] # Scaled(b) ELSE 0
       IN /\ nxt # 0
          /\ \A m \in (j+1)..(nxt-1) : OnSegScaled(r[m],a,b) /\ Param(r[m],a,b) >= Param(r[m-1],a,b)
          /\ \A m \in j..(nxt-1) : GapOK(r[m], r[m+1], dn, dd)
          /\ DensifyWalk(l,r,i+1,nxt,dn,dd)
DensifyOK(l,r,dn,dd) == Len(r) >= 1 /\ r[1] = Scaled(l[1]) /\ DensifyWalk(l,r,1,1,dn,dd)

\* ---- tokens (16 hex digits of float64 bits)
HexDigits == <<"0","1","2","3","4","5","6","7","8","9","a","b","c","d","e","f">>
HexVal(ch) == CHOOSE i \in 0..15 : HexDigits[i+1] = ch
NegBits(b) == HexDigits[((HexVal(SubSeq(b,1,1)) + 8) % 16) + 1] \o SubSeq(b,2,16)
IsFiniteTok(t) == ~(SubSeq(t,1,1) \in {"7","f"} /\ SubSeq(t,2,3) = "ff")
RECURSIVE Pow10(_)
Pow10(n) == IF n = 0 THEN 1 ELSE 10 * Pow10(n-1)
\* x = k * 10^e snapped to dp decimal places gave sd * 10^sg: within half a grid step (plus one unit of rounding)
SnapNear(k,e,dp,sd,sg) == LET u == -dp c == Min2(Min2(sg, e), u - 1)
                              D == sd * Pow10(sg - c) K == k * Pow10(e - c) Hh == 5 * Pow10(u - 1 - c)
                          IN Abs(D - K) <= Hh + 1
=============================================================================
