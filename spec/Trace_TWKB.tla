------------------------------ MODULE Trace_TWKB ------------------------------
(* Trace validation for C07.                                                  *)
(*  kind "enc": MarshalTWKB of the real library: the recorded bytes are read  *)
(*              by the specification's reader (TWKB.tla) and must give the    *)
(*              original rounded to the precision, truthful size / bbox / id  *)
(*              headers; the library's own decode and its header-only readers *)
(*              must agree with the specification's reading of the same bytes *)
(*  kind "dec": bytes written by the specification's writer (Gen_TWKB), read  *)
(*              by the real UnmarshalTWKB                                     *)
(*  kind "bad": out-of-range precision / wrong id count: must be an error     *)
EXTENDS TWKB, Json, IOUtils

Trace == ndJsonDeserialize(IOEnv.VTRACE)
S == 64
VARIABLES sh, l
vars == <<sh, l>>

RECURSIVE Pow10(_)
Pow10(n) == IF n = 0 THEN 1 ELSE 10 * Pow10(n-1)
Abs(x) == IF x < 0 THEN -x ELSE x
\* v = the grid integer at precision p of the raw value k / 10^q (ties may go either way in binary floating point)
NearRound(k,q,p,v) == IF p >= q THEN v = k * Pow10(p-q)
                      ELSE IF q - p >= 9 THEN v = 0            \* |k| < 2^27 is far below half a grid step
                      ELSE /\ Abs(v) <= Abs(k) \div Pow10(q-p) + 1
                           /\ 2*Abs(v*Pow10(q-p) - k) <= Pow10(q-p)
\* precision of ordinate i of a point in coordinate type ct
PrecOf(e,i) == IF i <= 2 THEN e.p ELSE IF i = 3 THEN (IF e.ct \in {"XYZ","XYZM"} THEN e.pz ELSE e.pm) ELSE e.pm
PtOK(e,raw,got) == Len(raw) = Len(got) /\ \A i \in 1..Len(raw) : NearRound(raw[i], e.q, PrecOf(e,i), got[i])
SeqOK(e,raw,got) == Len(raw) = Len(got) /\ \A i \in 1..Len(raw) : PtOK(e,raw[i],got[i])
Seq2OK(e,raw,got) == Len(raw) = Len(got) /\ \A i \in 1..Len(raw) : SeqOK(e,raw[i],got[i])
Seq3OK(e,raw,got) == Len(raw) = Len(got) /\ \A i \in 1..Len(raw) : Seq2OK(e,raw[i],got[i])

\* does the original contain any ordinate at all
RECURSIVE HasOrd(_)
HasOrd(g) == CASE g.t = 1 -> Len(g.c) > 0
               [] g.t = 2 -> Len(g.c) > 0
               [] g.t = 4 -> \E i \in 1..Len(g.c) : Len(g.c[i]) > 0
               [] g.t \in {3,5} -> \E i \in 1..Len(g.c) : Len(g.c[i]) > 0
               [] g.t = 6 -> \E i \in 1..Len(g.c) : \E k \in 1..Len(g.c[i]) : Len(g.c[i][k]) > 0
               [] g.t = 7 -> \E i \in 1..Len(g.c) : HasOrd(g.c[i])
\* original (raw ints, [t,c]) against a parsed/decoded geometry ([t,e,c] on the grid), with the two tolerated losses
RECURSIVE Same(_,_,_)
Same(e,o,g) ==
  /\ o.t = g.t
  /\ IF ~HasOrd(o) THEN g.e
     ELSE /\ ~g.e
          /\ CASE o.t = 1 -> Len(g.c) = 1 /\ PtOK(e,o.c,g.c[1])
               [] o.t = 2 -> SeqOK(e,o.c,g.c)
               [] o.t = 3 \/ o.t = 5 -> Seq2OK(e,o.c,g.c)
               [] o.t = 4 -> SeqOK(e, SelectSeq(o.c, LAMBDA p : Len(p) > 0), g.c)   \* empty points cannot be expressed: dropped
               [] o.t = 6 -> Seq3OK(e,o.c,g.c)
               [] o.t = 7 -> Len(o.c) = Len(g.c) /\ \A i \in 1..Len(o.c) : Same(e,o.c[i],g.c[i])

Dim(ct) == IF ct = "XY" THEN 2 ELSE IF ct = "XYZM" THEN 4 ELSE 3

\* domain guard: rounding keeps the rings' shape - two distinct vertices of a ring stay at least two grid
\* steps apart in X or Y (otherwise the implicit ring closure of the format changes the vertex count)
Apart(e,a,b) == IF e.p >= e.q THEN TRUE
                ELSE e.q - e.p <= 8 /\ \E i \in 1..2 : Abs(a[i] - b[i]) >= 2 * Pow10(e.q - e.p)
RingKeeps(e,r) == \A i \in 1..Len(r) : \A j \in 1..Len(r) : r[i] # r[j] => Apart(e, r[i], r[j])
RECURSIVE RingsKeep(_,_)
RingsKeep(e,o) == CASE o.t = 3 -> \A i \in 1..Len(o.c) : RingKeeps(e, o.c[i])
                    [] o.t = 6 -> \A i \in 1..Len(o.c) : \A k \in 1..Len(o.c[i]) : RingKeeps(e, o.c[i][k])
                    [] o.t = 7 -> \A i \in 1..Len(o.c) : RingsKeep(e, o.c[i])
                    [] OTHER -> TRUE
\* the ids that can be written: a MultiPoint's empty Points are omitted together with their ids
ExpIds(e) == IF e.g.t = 4 THEN LET keep == {i \in 1..Len(e.g.c) : Len(e.g.c[i]) > 0} IN
                  [j \in 1..Cardinality(keep) |-> e.ids[CHOOSE i \in keep : Cardinality({x \in keep : x < i}) = j - 1]]
             ELSE e.ids

CheckEnc(e) ==
  IF ~RingsKeep(e, e.g) THEN "skip:rounding-collapses-a-ring"
  ELSE IF e.err # "" THEN
       \* refusing a MultiPoint that contains an empty Point is allowed; nothing else is
       (IF e.emptyPointInMulti THEN "ok" ELSE "marshal-error")
  ELSE LET r == Geom(e.bytes, 1) IN
  IF ~r.ok THEN "spec-reader-rejects-bytes"
  ELSE IF ~Same(e, e.g, Proj(r.g)) THEN "value"
  ELSE IF HasOrd(e.g) /\ r.g.ct # e.ct THEN "coordinate-type"
  ELSE IF HasOrd(e.g) /\ (r.g.prec # e.p \/ (e.ct \in {"XYZ","XYZM"} /\ r.g.pz # e.pz) \/ (e.ct \in {"XYM","XYZM"} /\ r.g.pm # e.pm)) THEN "precision-header"
  ELSE IF e.size /\ HasOrd(e.g) /\ r.g.size # Len(e.bytes) - (r.g.sizeEnd - 1) THEN "size-header"
  ELSE IF e.bbox /\ HasOrd(e.g) /\ (~r.g.hasBBox \/ r.g.bbox # BBoxOf(r.g, Dim(e.ct))) THEN "bbox-header"
  ELSE IF Len(e.ids) > 0 /\ HasOrd(e.g) /\ (~r.g.hasIDs \/ r.g.ids # ExpIds(e)) THEN "id-list"
  \* the same call with the same arguments gives the same bytes (the writer neither consumes nor rewrites what the caller
  \* passed, the id list included), and a result is not touched by later calls
  ELSE IF ~e.again THEN "same-call-again-gives-other-bytes"
  ELSE IF ~e.stable THEN "result-overwritten-by-a-later-call"
  \* the library's own decode of its own bytes
  ELSE IF e.decerr # "" THEN "unmarshal-error"
  ELSE IF e.dec # Proj(r.g) THEN "decode-differs-from-spec-reader"
  ELSE IF HasOrd(e.g) /\ e.decct # e.ct THEN "decoded-coordinate-type"
  \* header-only readers agree with the full decode
  ELSE IF e.hsize # (IF r.g.size >= 0 THEN r.g.sizeEnd - 1 + r.g.size ELSE -1) THEN "header-reader-size"
  ELSE IF e.hbbox # (IF r.g.hasBBox THEN r.g.bbox ELSE <<>>) THEN "header-reader-bbox"
  ELSE IF e.hids # (IF r.g.hasIDs THEN r.g.ids ELSE <<>>) THEN "header-reader-ids"
  ELSE "ok"

CheckDec(e) ==
  LET r == Geom(e.bytes, 1) IN
  IF ~r.ok THEN (IF e.decerr # "" THEN "ok" ELSE "accepted-bytes-the-spec-reader-rejects")
  ELSE IF e.decerr # "" THEN "unmarshal-error"
  ELSE IF e.dec # Proj(r.g) THEN "decode-differs-from-spec-reader"
  ELSE IF PtsOf(r.g) # {} /\ e.decct # r.g.ct THEN "decoded-coordinate-type"
  ELSE "ok"

\* kind "grid": a lattice geometry (integer ordinates k, |k| <= 16) divided by 10^q, written with precision q and read
\* back WITH validation.  Whether k is valid is decided exactly by Validity.tla on the integers (scaling does not change
\* validity); a valid geometry on the grid must come back, accepted by the validating reader, as exactly itself.
VV == INSTANCE Validity
\* the exact incidences that survive the division by 10^q: shared vertices (equal decimals are equal floats) and vertices on
\* axis-parallel edges (the ordinate they share with the edge is the same float, the cross product is exactly zero)
AxisParallel(s) == s[1][1] = s[2][1] \/ s[1][2] = s[2][2]
GridSafe(g) ==
  LET SG == VV!AllSegs(g) P == VV!CtrlPts(g) IN
  /\ \A s \in SG : \A p \in P : VV!OnSegH(s, VV!H(p)) => (p = s[1] \/ p = s[2] \/ AxisParallel(s))
  /\ \A s \in SG : \A t \in SG : (s # t /\ <<s[2],s[1]>> # t /\ VV!Overlap1D(s,t)) => AxisParallel(s)
CheckGrid(e) ==
  IF ~VV!PartsValid(e.parts) THEN "skip:invalid"
  \* a vertex of one ring in the interior of another ring's slanted edge is an exact incidence on the integers only: k/10^q
  \* is not a binary fraction, the decoded vertex lies a rounding error off the decoded edge, and whether the float
  \* geometry is valid is no longer decided by the lattice. The claim is made where every incidence survives.
  ELSE IF ~GridSafe(VV!Merge(e.parts)) THEN "skip:vertex-on-slanted-edge"
  ELSE IF e.err # "" THEN "marshal-error-on-valid-geometry"
  ELSE IF e.decerr # "" THEN "validating-reader-rejects-valid-geometry-on-the-grid"
  ELSE IF ~e.same THEN "decoded-geometry-differs-on-the-grid"
  ELSE "ok"

Check(e) ==
  IF e.panic # "" THEN "panic"
  ELSE IF e.kind = "grid" THEN CheckGrid(e)
  ELSE IF e.kind = "enc" THEN CheckEnc(e)
  ELSE IF e.kind = "dec" THEN CheckDec(e)
  ELSE IF e.kind = "bad" THEN (IF e.err # "" THEN "ok" ELSE "accepted:" \o e.what)
  ELSE "unknown-kind"

Init == sh \in 1..S /\ l = sh
Next == /\ l <= Len(Trace) /\ l' = l + S /\ sh' = sh
        /\ LET r == Check(Trace[l]) IN IF r = "ok" THEN TRUE ELSE PrintT(ToJson([k |-> "V", l |-> l, r |-> r]))
Spec == Init /\ [][Next]_vars
Done == PrintT(ToJson([k |-> "DONE", distinct |-> TLCGet("distinct"), want |-> Len(Trace) + S]))
=============================================================================
