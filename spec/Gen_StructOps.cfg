SPECIFICATION Spec
CONSTANT MaxOps = 1
CHECK_DEADLOCK FALSE
