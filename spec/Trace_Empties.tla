---------------------------- MODULE Trace_Empties ----------------------------
(* Trace validation for C20.  Each line is one history.                        *)
(*  kind "shape": an all-empty geometry: no public method or function panics,  *)
(*                and the neutral answers are the documented ones              *)
(*  kind "zero":  the zero Geometry behaves like an empty GeometryCollection   *)
(*  kind "hist":  a non-empty geometry, then InsertEmpty / RemoveEmpty steps   *)
(*                applied to the real value; the observation vector recorded   *)
(*                after every step must not change (transparency)              *)
EXTENDS Empties, WKT, Json, IOUtils

Trace == ndJsonDeserialize(IOEnv.VTRACE)
VARIABLES h, i, obs
vars == <<h, i, obs>>
Report(r) == IF r = "ok" THEN TRUE ELSE PrintT(ToJson([k |-> "V", l |-> h, i |-> i, r |-> r]))
Ev == Trace[h].steps[i]

CheckShape(e) ==
  IF Len(e.panics) > 0 THEN "panic:" \o e.panics[1]
  ELSE IF ~IsEmptyTree(e.tree) THEN "skip:not-empty"
  ELSE IF ~e.isempty THEN "isempty"
  ELSE IF e.dim # TreeDim(e.tree) THEN "dimension"
  ELSE IF ~e.envempty THEN "envelope-not-empty"
  ELSE IF e.area # "0000000000000000" \/ e.length # "0000000000000000" THEN "measure-not-zero"
  ELSE IF ~e.centroidempty \/ ~e.hullempty \/ ~e.boundaryempty \/ ~e.posempty THEN "derived-geometry-not-empty"
  ELSE IF e.distok \/ e.distokrev THEN "distance-defined-on-empty"
  ELSE IF e.relself # "FFFFFFFF2" THEN "relate-empty-empty"
  ELSE IF e.relpt # "FFFFFF0F2" \/ e.relptrev # "FF0FFFFF2" THEN "relate-empty-point"
  ELSE IF e.intersects \/ ~e.disjoint THEN "predicate-on-empty"
  ELSE IF e.unionwith # e.unaryother THEN "union-with-empty-is-not-the-self-union"
  ELSE IF ~e.interempty \/ ~e.diffempty THEN "set-operation-on-empty"
  ELSE IF e.toks # PrintG(e.tree) THEN "wkt-of-empty"
  ELSE IF ~e.wkbsame \/ ~e.jsonok THEN "encoding-of-empty"
  ELSE IF ~e.valid THEN "empty-is-invalid"
  ELSE "ok"

Init == h \in 1..Len(Trace) /\ i = 1 /\ obs = <<>>
Step == /\ i <= Len(Trace[h].steps) /\ i' = i + 1 /\ h' = h
        /\ CASE Trace[h].kind = "shape" -> Report(CheckShape(Ev)) /\ obs' = obs
             [] Trace[h].kind = "zero" -> Report(IF Len(Ev.panics) > 0 THEN "panic:" \o Ev.panics[1] ELSE IF Ev.zero # Ev.emptygc THEN "zero-geometry-differs-from-empty-collection:" \o Ev.what ELSE "ok") /\ obs' = obs
             [] OTHER ->   \* "hist": the first step records the observation, every later one must reproduce it
                  /\ Report(IF Ev.panic # "" THEN "panic:" \o Ev.act
                            ELSE IF i > 1 /\ Ev.obs # obs THEN "observation-changed-by:" \o Ev.act \o ":" \o
                                     (LET d == {j \in 1..Len(obs) : Ev.obs[j] # obs[j]} IN Ev.names[CHOOSE j \in d : \A m \in d : j <= m])
                            ELSE "ok")
                  /\ obs' = IF i = 1 THEN Ev.obs ELSE obs
Spec == Init /\ [][Step]_vars
RECURSIVE Total(_)
Total(k) == IF k = 0 THEN 0 ELSE Len(Trace[k].steps) + 1 + Total(k-1)
Done == PrintT(ToJson([k |-> "DONE", distinct |-> TLCGet("distinct"), want |-> Total(Len(Trace))]))
=============================================================================
