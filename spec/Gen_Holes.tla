------------------------------ MODULE Gen_Holes ------------------------------
(* (G) for C03: a 4 x 4 shell inside a 0..6 lattice, a first hole from a small *)
(* pool inside the shell, and a second hole that is a small triangle or square *)
(* translated to EVERY lattice position - inside, touching, crossing and fully *)
(* outside the shell, overlapping, touching or nested in the first hole - in   *)
(* both hole orders and both ring directions.                                  *)
EXTENDS Integers, Sequences, TLC, Json
Shell == << <<1,1>>, <<5,1>>, <<5,5>>, <<1,5>>, <<1,1>> >>
First == << << <<2,2>>, <<3,2>>, <<2,3>>, <<2,2>> >>,
            << <<2,2>>, <<4,2>>, <<4,4>>, <<2,4>>, <<2,2>> >>,
            << <<1,1>>, <<3,2>>, <<2,3>>, <<1,1>> >> >>
Shapes == << << <<0,0>>, <<1,0>>, <<0,1>>, <<0,0>> >>,
             << <<0,0>>, <<1,0>>, <<1,1>>, <<0,1>>, <<0,0>> >>,
             << <<0,0>>, <<2,1>>, <<1,2>>, <<0,0>> >>,
             << <<1,0>>, <<2,1>>, <<1,2>>, <<0,1>>, <<1,0>> >> >>
Shift(r,dx,dy) == [i \in 1..Len(r) |-> <<r[i][1]+dx, r[i][2]+dy>>]
RevR(r) == [i \in 1..Len(r) |-> r[Len(r)+1-i]]
PtStr(p) == ToString(p[1]) \o " " \o ToString(p[2])
RECURSIVE RingStr(_)
RingStr(r) == IF Len(r) = 1 THEN PtStr(r[1]) ELSE PtStr(r[1]) \o "," \o RingStr(Tail(r))
PolyWKT(rings) == LET f[i \in 1..Len(rings)] == (IF i = 1 THEN "" ELSE f[i-1] \o ",") \o "(" \o RingStr(rings[i]) \o ")"
                  IN "POLYGON(" \o f[Len(rings)] \o ")"
VARIABLES ph, st
Init == ph = "start" /\ st = <<>>
Pick == ph = "start" /\ ph' = "mid" /\ \E a \in 1..Len(First), s \in 1..Len(Shapes), swap \in BOOLEAN, rev \in BOOLEAN : st' = <<a, s, swap, rev>>
Emit == /\ ph = "mid" /\ ph' = "case"
        /\ \E dx \in 0..5, dy \in 0..5 :
             LET h2 == IF st[4] THEN RevR(Shift(Shapes[st[2]], dx, dy)) ELSE Shift(Shapes[st[2]], dx, dy)
                 rings == IF st[3] THEN <<Shell, h2, First[st[1]]>> ELSE <<Shell, First[st[1]], h2>>
             IN /\ st' = <<st[1], st[2], st[3], st[4], dx, dy>>
                /\ PrintT(ToJson([k |-> "CASE", kind |-> "geom", w |-> PolyWKT(rings)]))
Next == Pick \/ Emit
Spec == Init /\ [][Next]_<<ph, st>>
=============================================================================
