------------------------------ MODULE Trace_WKB ------------------------------
(* Trace validation for C04.                                                  *)
(*  kind "enc": the bytes recorded from AsBinary are read by the              *)
(*              specification's reader and must give exactly the geometry     *)
(*              that was built; the library's own decode, re-encode, AppendWKB,*)
(*              Value/Scan and trailing-byte behaviour are logged alongside   *)
(*  kind "dec": bytes written by the specification's writer (any byte order   *)
(*              per element) read by the real UnmarshalWKB                    *)
EXTENDS WKB, AbstractGeom, Json, IOUtils

Trace == ndJsonDeserialize(IOEnv.VTRACE)
S == 64
VARIABLES sh, l
vars == <<sh, l>>

Same(a,b) == SameTree(a,b)

CheckEnc(e) ==
  LET r == Dec(e.bytes, 1) IN
  IF ~r.ok \/ r.pos # Len(e.bytes) + 1 THEN "spec-reader-rejects-bytes"
  ELSE IF ~Same(r.g, e.g) THEN "encoding-is-not-the-geometry"
  ELSE IF e.decerr # "" THEN "unmarshal-error"
  ELSE IF ~Same(e.dec, e.g) THEN "decode-differs"
  ELSE IF KnownValid(e.g) /\ e.valerr # "" THEN "validating-reader-rejects-a-valid-geometry"
  \* the same geometry re-encoded by the driver with another byte order per element: the bytes must denote the
  \* same geometry (the specification's reader checks the driver's re-encoding) and the library must read them as such
  ELSE IF ~(LET r2 == Dec(e.bytes2, 1) IN r2.ok /\ Same(r2.g, e.g)) THEN "driver-reencoding-is-wrong"
  ELSE IF e.dec2err # "" THEN "unmarshal-error-on-other-byte-order"
  ELSE IF ~Same(e.dec2, e.g) THEN "decode-differs-on-other-byte-order"
  ELSE IF ~e.reenc THEN "re-encode-differs"
  ELSE IF ~e.stable THEN "result-overwritten-by-a-later-call"
  ELSE IF ~e.append THEN "appendwkb"
  ELSE IF ~e.trail THEN "trailing-bytes"
  ELSE IF ~e.value THEN "value"
  \* Scan validates: it succeeds exactly for the matching type, provided the geometry is valid
  ELSE IF \E i \in 1..7 : e.scan[i] /\ TypeNames[i] # e.g.t THEN "scan-accepts-a-different-type"
  \* (valid as far as the library's own Validate says, or known to be valid by the specification)
  ELSE IF (e.valid \/ KnownValid(e.g)) /\ \E i \in 1..7 : ~e.scan[i] /\ TypeNames[i] = e.g.t THEN "scan-rejects-its-own-type"
  ELSE IF ((e.valid \/ KnownValid(e.g)) /\ ~e.scan[8]) \/ ~e.scansame THEN "scan-geometry"
  ELSE IF KnownValid(e.g) /\ ~e.valid THEN "validate-rejects-a-valid-geometry"
  \* NullGeometry: NULL <-> nil; otherwise exactly Geometry's Scan / Value
  ELSE IF e.null # <<TRUE, TRUE, TRUE, TRUE>> THEN "null-geometry"
  ELSE "ok"

CheckDec(e) ==
  LET r == Dec(e.bytes, 1) IN
  IF ~r.ok THEN (IF e.decerr # "" THEN "ok" ELSE "accepted-bytes-the-spec-reader-rejects")
  ELSE IF e.decerr # "" THEN "unmarshal-error"
  ELSE IF ~Same(e.dec, r.g) THEN "decode-differs"
  ELSE IF ~e.reenc THEN "decoded-value-does-not-round-trip"
  ELSE "ok"

Check(e) == IF e.panic # "" THEN "panic" ELSE IF e.kind = "enc" THEN CheckEnc(e) ELSE CheckDec(e)

Init == sh \in 1..S /\ l = sh
Next == /\ l <= Len(Trace) /\ l' = l + S /\ sh' = sh
        /\ LET r == Check(Trace[l]) IN IF r = "ok" THEN TRUE ELSE PrintT(ToJson([k |-> "V", l |-> l, r |-> r]))
Spec == Init /\ [][Next]_vars
Done == PrintT(ToJson([k |-> "DONE", distinct |-> TLCGet("distinct"), want |-> Len(Trace) + S]))
=============================================================================
