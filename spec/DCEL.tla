-------------------------------- MODULE DCEL --------------------------------
(* C01 (pipeline state): structural invariants of the overlay's doubly        *)
(* connected edge list as exported by the verif hook, and an independent      *)
(* derivation of the face labels that the flood fill computes.                *)
(*   d = [verts: seq of [xy, src, inset, incidents],                          *)
(*        edges: seq of [origin, twin, next, prev, face, srcedge, srcface,    *)
(*                       inset, seq (points), lattice (all points integers)], *)
(*        faces: seq of [cycle, inset]]                                       *)
(* Boolean pairs are <<forA, forB>>.                                          *)
EXTENDS PointSet

\* follow next from e until back at e (bounded by the number of half edges)
RECURSIVE CycleFrom(_,_,_,_)
CycleFrom(d, e, cur, acc) == IF cur = e /\ acc # {} THEN acc
                             ELSE IF cur \in acc THEN {}          \* not a simple cycle through e
                             ELSE CycleFrom(d, e, d.edges[cur].next, acc \cup {cur})
CycleOf(d,e) == CycleFrom(d, e, e, {})

\* connected components of the vertex graph (Euler's formula needs their number)
RECURSIVE ReachV(_,_)
ReachV(d, S) == LET S2 == S \cup {d.edges[d.edges[i].twin].origin : i \in {j \in 1..Len(d.edges) : d.edges[j].origin \in S}} IN
                IF S2 = S THEN S ELSE ReachV(d, S2)

Structure(d) ==
  LET NE == Len(d.edges) NV == Len(d.verts) NF == Len(d.faces) E(i) == d.edges[i] IN
  IF \E i \in 1..NE : E(i).twin \notin 1..NE \/ E(i).next \notin 1..NE \/ E(i).prev \notin 1..NE \/ E(i).origin \notin 1..NV \/ E(i).face \notin 1..NF
     THEN "dangling-reference"
  ELSE IF \E i \in 1..NE : E(E(i).twin).twin # i \/ E(i).twin = i THEN "twin-not-an-involution"
  ELSE IF \E i \in 1..NE : E(E(i).next).prev # i \/ E(E(i).prev).next # i THEN "next-prev-mismatch"
  ELSE IF \E i \in 1..NE : E(E(i).next).origin # E(E(i).twin).origin THEN "next-does-not-start-where-the-edge-ends"
  ELSE IF \E i \in 1..NE : E(i).ends[1] # d.verts[E(i).origin].xy \/ E(i).ends[2] # d.verts[E(E(i).twin).origin].xy THEN "edge-geometry-does-not-join-its-vertices"
  ELSE IF \E i \in 1..NE : E(E(i).next).face # E(i).face THEN "face-changes-along-a-cycle"
  ELSE IF NE > 0 /\ \E f \in 1..NF : CycleOf(d, d.faces[f].cycle) # {i \in 1..NE : E(i).face = f} THEN "face-is-not-one-cycle"
  ELSE IF \E v \in 1..NV : SeqSet(d.verts[v].incidents) # {i \in 1..NE : E(i).origin = v} THEN "incident-set"
  \* the ghost spanning tree connects everything that has edges: V - E + F = 2 for the vertices that have edges
  ELSE IF NE > 0 /\ (LET VE == {E(i).origin : i \in 1..NE} IN
                     ReachV(d, {E(1).origin}) # VE \/ Cardinality(VE) - NE \div 2 + NF # 2) THEN "euler"
  ELSE IF NE = 0 /\ NF # 1 THEN "faces-without-edges"
  \* labels are closed: a face in the operand puts its bounding edges in, an edge puts its end points in
  ELSE IF \E i \in 1..NE : \E op \in 1..2 : (d.faces[E(i).face].inset[op] \/ E(i).srcedge[op]) /\ ~E(i).inset[op] THEN "edge-label-not-closed"
  ELSE IF \E i \in 1..NE : \E op \in 1..2 : E(i).inset[op] # E(E(i).twin).inset[op] THEN "edge-label-differs-from-twin"
  ELSE IF \E i \in 1..NE : \E op \in 1..2 : E(i).inset[op] /\ ~d.verts[E(i).origin].inset[op] THEN "vertex-label-not-closed"
  ELSE IF \E v \in 1..NV : \E op \in 1..2 : d.verts[v].src[op] /\ ~d.verts[v].inset[op] THEN "source-vertex-not-in-set"
  ELSE "ok"

\* independent derivation of the face labels: the face to the left of a straight lattice half edge is in an operand
\* iff a ray leaving the edge's midpoint to the left crosses the operand's rings an odd number of times
FaceLabels(d, ga, gb) ==
  LET ok(i) == LET e == d.edges[i] IN
          (e.lattice /\ Len(e.seq) = 2) =>
             LET s == <<e.seq[1], e.seq[2]>> m == Mid(H(s[1]), H(s[2])) f == d.faces[e.face] IN
             f.inset[1] = FaceInArea(ga, m, NL(s)) /\ f.inset[2] = FaceInArea(gb, m, NL(s))
  IN IF \A i \in 1..Len(d.edges) : ok(i) THEN "ok" ELSE "face-label-wrong"
\* exactly one unbounded face, and it is in neither operand: it is the face left of the half edge leaving the
\* lowest-leftmost vertex ... is not needed separately: FaceLabels covers every face that has a lattice edge.
CheckDCEL(d, ga, gb) == LET s == Structure(d) IN IF s # "ok" THEN "dcel:" \o s ELSE LET f == FaceLabels(d, ga, gb) IN IF f # "ok" THEN "dcel:" \o f ELSE "ok"
=============================================================================
