-------------------------------- MODULE RTree --------------------------------
(* Reference model of the bulk-loaded R-tree (C11).                          *)
(*   Load      : any tree allowed by the documented partition rule           *)
(*               (<= 4 items: leaf; 5..8: two children; >= 9: four children; *)
(*               each split halves the items by box centre along the longer  *)
(*               axis of their bound)                                        *)
(*   RangeStep : depth-first descent pruned by closed box overlap            *)
(*   PrioStep  : best-first traversal by squared box distance                *)
(*   Visit     : one callback; the caller's answer (continue / Stop /        *)
(*               wrapped Stop / error) is chosen nondeterministically        *)
(*   Finish    : the search returns                                          *)
EXTENDS RTreeBase

CONSTANTS Pool, Queries, MaxN

VARIABLES items, tree, phase, q, kind, stack, heap, visited, stopped, result
vars == <<items, tree, phase, q, kind, stack, heap, visited, stopped, result>>

RECURSIVE BoundOf(_,_)
BoundOf(S, its) == LET i == CHOOSE i \in S : TRUE IN
                   IF S = {i} THEN its[i] ELSE Join(its[i], BoundOf(S \ {i}, its))
Key(i, its, horiz) == IF horiz THEN its[i][1] + its[i][3] ELSE its[i][2] + its[i][4]
Split2(S, its) == LET b == BoundOf(S, its)
                      horiz == (b[3]-b[1]) > (b[4]-b[2])
                      k == Cardinality(S) \div 2
                  IN {<<A, S \ A>> : A \in {X \in SUBSET S : Cardinality(X) = k /\
                                             \A a \in X, c \in S \ X : Key(a,its,horiz) <= Key(c,its,horiz)}}
RECURSIVE SetToSeq(_)
SetToSeq(S) == IF S = {} THEN <<>> ELSE LET i == CHOOSE i \in S : \A j \in S : i <= j IN <<i>> \o SetToSeq(S \ {i})
Leaf(S, its) == [leaf |-> TRUE, box |-> BoundOf(S, its),
                 ents |-> [k \in 1..Cardinality(S) |-> [id |-> SetToSeq(S)[k], box |-> its[SetToSeq(S)[k]]]]]
RECURSIVE Build(_,_)
Branch(parts, its) ==
   IF Len(parts) = 2 THEN {[leaf |-> FALSE, box |-> Join(a.box,b.box), ents |-> <<a,b>>] : a \in Build(parts[1],its), b \in Build(parts[2],its)}
   ELSE {[leaf |-> FALSE, box |-> Join(Join(a.box,b.box),Join(c.box,d.box)), ents |-> <<a,b,c,d>>] :
            a \in Build(parts[1],its), b \in Build(parts[2],its), c \in Build(parts[3],its), d \in Build(parts[4],its)}
Build(S, its) ==
   IF Cardinality(S) <= 4 THEN {Leaf(S, its)}
   ELSE IF Cardinality(S) <= 8 THEN UNION {Branch(<<p[1],p[2]>>, its) : p \in Split2(S, its)}
   ELSE UNION {UNION {UNION {Branch(<<p1[1],p1[2],p2[1],p2[2]>>, its) : p2 \in Split2(p[2], its)} : p1 \in Split2(p[1], its)} : p \in Split2(S, its)}

RECURSIVE NodeOK(_)
NodeOK(n) == LET bound == JoinSeq([k \in 1..Len(n.ents) |-> n.ents[k].box]) IN
             IF n.leaf THEN Len(n.ents) \in 1..4 /\ n.box = bound
             ELSE Len(n.ents) \in 2..4 /\ (\A k \in 1..Len(n.ents) : NodeOK(n.ents[k])) /\ n.box = bound
RECURSIVE LeafIds(_)
LeafIds(n) == IF n.leaf THEN {n.ents[k].id : k \in 1..Len(n.ents)} ELSE UNION {LeafIds(n.ents[k]) : k \in 1..Len(n.ents)}

Empty == [leaf |-> TRUE, box |-> <<0,0,0,0>>, ents |-> <<>>]

Init == /\ items \in UNION {[1..n -> Pool] : n \in 0..MaxN}
        /\ tree = Empty /\ phase = "load" /\ q = <<0,0,0,0>> /\ kind = "none"
        /\ stack = <<>> /\ heap = {} /\ visited = <<>> /\ stopped = "no" /\ result = "none"

Load == /\ phase = "load"
        /\ IF Len(items) = 0 THEN tree' = Empty ELSE tree' \in Build(1..Len(items), items)
        /\ phase' = "idle" /\ UNCHANGED <<items, q, kind, stack, heap, visited, stopped, result>>

Start == /\ phase = "idle" /\ result = "none"
         /\ q' \in Queries /\ kind' \in {"range","prio"}
         /\ phase' = "search" /\ visited' = <<>> /\ stopped' = "no"
         /\ stack' = IF Len(tree.ents) = 0 THEN <<>> ELSE <<[n |-> tree, i |-> 1]>>
         /\ heap' = IF Len(tree.ents) = 0 THEN {} ELSE {[e |-> tree.ents[k], leaf |-> tree.leaf, path |-> <<k>>] : k \in 1..Len(tree.ents)}
         /\ UNCHANGED <<items, tree, result>>

Visit(id) == \E ans \in {"cont","stop","wrapped","err"} :
                /\ visited' = Append(visited, id)
                /\ stopped' = IF ans = "cont" THEN "no" ELSE ans

RangeStep == /\ phase = "search" /\ kind = "range" /\ stopped = "no" /\ stack # <<>>
             /\ LET top == stack[Len(stack)] rest == SubSeq(stack, 1, Len(stack)-1) IN
                IF top.i > Len(top.n.ents) THEN stack' = rest /\ UNCHANGED <<visited, stopped>>
                ELSE LET e == top.n.ents[top.i] adv == Append(rest, [n |-> top.n, i |-> top.i + 1]) IN
                     IF ~Overlap(e.box, q) THEN stack' = adv /\ UNCHANGED <<visited, stopped>>
                     ELSE IF top.n.leaf THEN stack' = adv /\ Visit(e.id)
                     ELSE stack' = Append(adv, [n |-> e, i |-> 1]) /\ UNCHANGED <<visited, stopped>>
             /\ UNCHANGED <<items, tree, phase, q, kind, heap, result>>

PrioStep == /\ phase = "search" /\ kind = "prio" /\ stopped = "no" /\ heap # {}
            /\ \E h \in heap : (\A o \in heap : D2(h.e.box, q) <= D2(o.e.box, q)) /\
                  IF h.leaf THEN heap' = heap \ {h} /\ Visit(h.e.id)
                  ELSE heap' = (heap \ {h}) \cup {[e |-> h.e.ents[k], leaf |-> h.e.leaf, path |-> Append(h.path, k)] : k \in 1..Len(h.e.ents)}
                       /\ UNCHANGED <<visited, stopped>>
            /\ UNCHANGED <<items, tree, phase, q, kind, stack, result>>

Finish == /\ phase = "search"
          /\ \/ stopped # "no"
             \/ (kind = "range" /\ stack = <<>>)
             \/ (kind = "prio" /\ heap = {})
          /\ result' = IF stopped = "err" THEN "err" ELSE "nil"
          /\ phase' = "done" /\ UNCHANGED <<items, tree, q, kind, stack, heap, visited, stopped>>

Next == Load \/ Start \/ RangeStep \/ PrioStep \/ Finish
Spec == Init /\ [][Next]_vars

TreeInv == phase # "load" /\ Len(items) > 0 => NodeOK(tree) /\ LeafIds(tree) = 1..Len(items)
NoRevisit == \A i, j \in 1..Len(visited) : i # j => visited[i] # visited[j]
OnlyHits == kind = "range" => \A i \in 1..Len(visited) : Overlap(items[visited[i]], q)
PrioOrder == kind = "prio" => \A i \in 1..(Len(visited)-1) : D2(items[visited[i]], q) <= D2(items[visited[i+1]], q)
Complete == (phase = "done" /\ stopped = "no") =>
               {visited[i] : i \in 1..Len(visited)} = (IF kind = "range" THEN {i \in 1..Len(items) : Overlap(items[i], q)} ELSE 1..Len(items))
StopIsFinal == stopped # "no" => ~ENABLED RangeStep /\ ~ENABLED PrioStep
=============================================================================
