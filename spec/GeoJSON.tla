------------------------------ MODULE GeoJSON ------------------------------
(* C06: GeoJSON geometry objects (RFC 7946) as abstract documents            *)
(*   doc = [type, keys, coordinates, geometries]                             *)
(* with positions as sequences of opaque number tokens, the decode rule of   *)
(* the library (structural decode, one global 2D/3D decision, positions      *)
(* longer than 3 truncated), and the forced losses of encoding.              *)
(* Geometries are the [t, ct, c] trees of AbstractGeom.tla.                  *)
EXTENDS AbstractGeom, TLC

GTypes == {"Point","LineString","Polygon","MultiPoint","MultiLineString","MultiPolygon","GeometryCollection"}
Depth(t) == CASE t = "Point" -> 0 [] t \in {"LineString","MultiPoint"} -> 1 [] t \in {"Polygon","MultiLineString"} -> 2 [] t = "MultiPolygon" -> 3 [] OTHER -> -1

\* ---- all positions of a document (at the nesting depth of its type)
RECURSIVE PosAt(_,_)
PosAt(x,d) == IF d = 0 THEN <<x>> ELSE LET f[i \in 0..Len(x)] == IF i = 0 THEN <<>> ELSE f[i-1] \o PosAt(x[i], d-1) IN f[Len(x)]
RECURSIVE DocPositions(_)
DocPositions(doc) == IF doc.type = "GeometryCollection"
                     THEN LET f[i \in 0..Len(doc.geometries)] == IF i = 0 THEN <<>> ELSE f[i-1] \o DocPositions(doc.geometries[i]) IN f[Len(doc.geometries)]
                     ELSE PosAt(doc.coordinates, Depth(doc.type))
PosLens(doc) == LET ps == DocPositions(doc) IN {Len(ps[i]) : i \in 1..Len(ps)}

\* ---- RFC 7946 shape of an encoded geometry: member names, nesting by type, 2- or 3-element positions
\* (the empty Point is written with an empty coordinates array, the convention the library documents)
RECURSIVE ShapeOK(_)
ShapeOK(doc) ==
  /\ doc.type \in GTypes
  /\ IF doc.type = "GeometryCollection"
     THEN doc.keys = <<"geometries","type">> /\ \A i \in 1..Len(doc.geometries) : ShapeOK(doc.geometries[i])
     ELSE /\ doc.keys = <<"coordinates","type">>
          /\ LET ps == DocPositions(doc) IN
             \A i \in 1..Len(ps) : Len(ps[i]) \in {2,3} \/ (doc.type = "Point" /\ Len(ps[i]) = 0)

\* ---- decode: global coordinate type, then construction
DecodeCt(doc) == LET L == PosLens(doc) IN IF 2 \notin L /\ \E n \in L : n >= 3 THEN "XYZ" ELSE "XY"
Trunc(p,ct) == SubSeq(p, 1, IF ct = "XYZ" THEN 3 ELSE 2)
RECURSIVE MapAt(_,_,_)
MapAt(x,d,ct) == IF d = 0 THEN Trunc(x,ct) ELSE [i \in 1..Len(x) |-> MapAt(x[i], d-1, ct)]
RECURSIVE Build(_,_)
Build(doc,ct) == IF doc.type = "GeometryCollection"
                 THEN [t |-> doc.type, ct |-> ct, c |-> [i \in 1..Len(doc.geometries) |-> Build(doc.geometries[i], ct)]]
                 ELSE [t |-> doc.type, ct |-> ct,
                       c |-> IF doc.type = "Point" THEN (IF Len(doc.coordinates) = 0 THEN <<>> ELSE Trunc(doc.coordinates, ct))
                             ELSE MapAt(doc.coordinates, Depth(doc.type), ct)]
\* positions of length 1 are an error everywhere; length 0 only denotes the empty Point
RECURSIVE DocOK(_)
DocOK(doc) == /\ doc.type \in GTypes
              /\ IF doc.type = "GeometryCollection" THEN \A i \in 1..Len(doc.geometries) : DocOK(doc.geometries[i])
                 ELSE LET ps == DocPositions(doc) IN \A i \in 1..Len(ps) : Len(ps[i]) >= 2 \/ (doc.type = "Point" /\ Len(ps[i]) = 0)
Decode(doc) == IF DocOK(doc) THEN [ok |-> TRUE, g |-> Build(doc, DecodeCt(doc))] ELSE [ok |-> FALSE, g |-> <<>>]

\* ---- the losses the format forces on a geometry
HasZ(ct) == ct \in {"XYZ","XYZM"}
DropM(p,ct) == IF Len(p) = 0 THEN p ELSE IF ct = "XYM" THEN SubSeq(p,1,2) ELSE IF ct = "XYZM" THEN SubSeq(p,1,3) ELSE p
RECURSIVE DropAt(_,_,_)
DropAt(x,d,ct) == IF d = 0 THEN DropM(x,ct) ELSE [i \in 1..Len(x) |-> DropAt(x[i], d-1, ct)]
RECURSIVE HasPosition(_)
HasPosition(g) == CASE g.t = "Point" -> Len(g.c) > 0
                    [] g.t = "LineString" -> Len(g.c) > 0
                    [] g.t = "MultiPoint" -> \E i \in 1..Len(g.c) : Len(g.c[i]) > 0
                    [] g.t \in {"Polygon","MultiLineString"} -> \E i \in 1..Len(g.c) : Len(g.c[i]) > 0
                    [] g.t = "MultiPolygon" -> \E i \in 1..Len(g.c) : \E k \in 1..Len(g.c[i]) : Len(g.c[i][k]) > 0
                    [] OTHER -> \E i \in 1..Len(g.c) : HasPosition(g.c[i])
RECURSIVE LossWith(_,_)
LossWith(g,nct) ==
  [t |-> g.t, ct |-> nct,
   c |-> CASE g.t = "Point" -> DropM(g.c, g.ct)
           [] g.t = "MultiPoint" -> DropAt(SelectSeq(g.c, LAMBDA p : Len(p) > 0), 1, g.ct)     \* empty Points cannot be written
           [] g.t = "GeometryCollection" -> [i \in 1..Len(g.c) |-> LossWith(g.c[i], nct)]
           [] OTHER -> DropAt(g.c, Depth(g.t), g.ct)]
\* M is dropped; Z is kept iff the geometry has Z and contains at least one position
Loss(g) == LossWith(g, IF HasZ(g.ct) /\ HasPosition(g) THEN "XYZ" ELSE "XY")
=============================================================================
