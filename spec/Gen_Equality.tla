----------------------------- MODULE Gen_Equality -----------------------------
(* (G) for C18: every (base, variant) pair of the family becomes a case for    *)
(* the real ExactEquals with every option subset, in both argument orders.     *)
EXTENDS EqFamily, Json
VARIABLES ph, i, d
Init == ph = "start" /\ i = 0 /\ d = <<>>
Pick == ph = "start" /\ ph' = "mid" /\ i' \in 1..Len(BaseSeq) /\ d' = <<>>
Emit == /\ ph = "mid" /\ ph' = "case" /\ i' = i
        /\ d' \in Descr(BaseSeq[i])
        /\ PrintT(ToJson([k |-> "CASE", kind |-> "pair", a |-> BaseSeq[i], b |-> Variant(BaseSeq[i], d'), how |-> d'[1]]))
Next == Pick \/ Emit
Spec == Init /\ [][Next]_<<ph, i, d>>
=============================================================================
