----------------------------- MODULE Gen_Equality -----------------------------
(* (G) for C18: every (base, variant) pair of the family becomes a case for    *)
(* the real ExactEquals with every option subset, in both argument orders.     *)
EXTENDS EqFamily, Json
VARIABLES ph, i, d
Init == ph = "start" /\ i = 0 /\ d = <<>>
Pick == ph = "start" /\ ph' = "mid" /\ i' \in 1..Len(BaseSeq) /\ d' = <<>>
Emit == /\ ph = "mid" /\ ph' = "case" /\ i' = i
        /\ d' \in Descr(BaseSeq[i])
        /\ PrintT(ToJson([k |-> "CASE", kind |-> "pair", a |-> BaseSeq[i], b |-> Variant(BaseSeq[i], d'), how |-> d'[1]]))
        \* the same pair one and two levels down inside a GeometryCollection: what holds for two values holds for the
        \* collections that contain them (Eq / EqIO are defined by recursion over the members)
        /\ PrintT(ToJson([k |-> "CASE", kind |-> "pair", a |-> Wrap(BaseSeq[i], 1), b |-> Wrap(Variant(BaseSeq[i], d'), 1), how |-> "gc:" \o d'[1]]))
        /\ PrintT(ToJson([k |-> "CASE", kind |-> "pair", a |-> Wrap(BaseSeq[i], 2), b |-> Wrap(Variant(BaseSeq[i], d'), 2), how |-> "gcgc:" \o d'[1]]))
Next == Pick \/ Emit
Spec == Init /\ [][Next]_<<ph, i, d>>
=============================================================================
