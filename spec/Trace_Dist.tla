------------------------------ MODULE Trace_Dist ------------------------------
(* Trace validation for C09: Intersects, Disjoint, Intersection non-empty,   *)
(* Distance (both orders), against the definitional DE-9IM and the exact     *)
(* squared distance.                                                         *)
EXTENDS Distance, Validity, Json, IOUtils

Trace == ndJsonDeserialize(IOEnv.VTRACE)
S == 64
VARIABLES sh, l
vars == <<sh, l>>

CheckPair(e) ==
  LET ga == Merge(e.a) gb == Merge(e.b) IN
  IF e.gp /\ ~GeneralPosition(ga,gb) THEN "skip:not-general-position"
  ELSE IF e.sym # "" THEN "asymmetric:" \o e.sym
  ELSE IF IsEmptyG(ga) \/ IsEmptyG(gb) THEN
       (IF e.dok THEN "distance-defined-on-empty" ELSE IF e.inter THEN "intersects-empty" ELSE IF ~e.disjoint THEN "disjoint-empty" ELSE "ok")
  ELSE LET si == SpecIntersects(ga,gb) IN
       IF e.inter # si THEN (IF si THEN "intersects-missed" ELSE "intersects-spurious")
       ELSE IF e.disjoint # ~si THEN "disjoint-vs-intersects"
       ELSE IF e.ierr # "" THEN "intersection-error"
       ELSE IF e.inonempty # si THEN "intersection-emptiness"
       ELSE IF ~e.dok THEN "distance-undefined"
       ELSE IF si THEN (IF e.dzero THEN "ok" ELSE "distance-nonzero-on-intersecting")
       ELSE IF e.dzero THEN "distance-zero-on-disjoint"
       ELSE LET d2 == D2(ga,gb) n == e.dn IN
            IF n < 0 THEN "distance-not-finite"
            ELSE IF ~DistOK(n, d2) THEN "distance-value"
            ELSE IF (n+1)*(n+1) < BoxD2(EnvOf(ga),EnvOf(gb))*16384 THEN "distance-below-envelope-distance"
            ELSE "ok"

\* d(a,c) <= d(a,b) + diam(b) + d(b,c), on floor(d*128) values with rounding slack
CheckTri(e) ==
  LET gb == Merge(e.b) dm == Diam2(gb) IN
  IF e.nab < 0 \/ e.nbc < 0 \/ e.nac < 0 THEN "distance-not-finite"
  ELSE IF ~(e.nbd*e.nbd <= dm*16384 /\ dm*16384 < (e.nbd+2)*(e.nbd+2)) THEN "diameter-logged-wrong"
  ELSE IF e.nac > e.nab + e.nbd + e.nbc + 4 THEN "triangle"
  ELSE "ok"

Check(e) ==
  IF e.panic # "" THEN "panic"
  ELSE IF ~PartsValid(e.a) \/ ~PartsValid(e.b) THEN "skip:invalid-operand"
  ELSE IF e.kind = "tri" THEN CheckTri(e)
  ELSE CheckPair(e)

Init == sh \in 1..S /\ l = sh
Next == /\ l <= Len(Trace) /\ l' = l + S /\ sh' = sh
        /\ LET r == Check(Trace[l]) IN IF r = "ok" THEN TRUE ELSE PrintT(ToJson([k |-> "V", l |-> l, r |-> r]))
Spec == Init /\ [][Next]_vars
Done == PrintT(ToJson([k |-> "DONE", distinct |-> TLCGet("distinct"), want |-> Len(Trace) + S]))
=============================================================================
