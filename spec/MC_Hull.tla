------------------------------ MODULE MC_Hull ------------------------------
(* (M) for C13: on every set of at most MaxPts points of a Side x Side       *)
(* lattice the monotone-chain stack machine returns exactly the extreme      *)
(* points of the definition, and that set satisfies the hull conditions.     *)
EXTENDS Hull
CONSTANTS Side, MaxPts
Lat == {<<x,y>> : x \in 0..Side, y \in 0..Side}
VARIABLE P
Init == P = {}
Next == Cardinality(P) < MaxPts /\ \E p \in Lat \ P : P' = P \cup {p}
Spec == Init /\ [][Next]_P
AllCollinear(Q) == \A a \in Q, b \in Q, c \in Q : Or3(a,b,c) = 0
ChainIsHull == Cardinality(P) >= 1 => MonotoneHull(P) = SpecHullSet(P)
HullCovers == LET Hs == SpecHullSet(P) IN
   Cardinality(P) >= 3 /\ ~AllCollinear(P) =>
     \A p \in P : \E a \in Hs, b \in Hs, c \in Hs : InTri(a,b,c,p)
=============================================================================
