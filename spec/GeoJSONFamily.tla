--------------------------- MODULE GeoJSONFamily ---------------------------
EXTENDS GeoJSON
Tk == <<"1","2","3","4","5","6","7">>
DimOf(ct) == IF ct = "XY" THEN 2 ELSE IF ct = "XYZM" THEN 4 ELSE 3
P(ct,k) == [i \in 1..DimOf(ct) |-> Tk[((k + i) % 7) + 1]]
Ring(ct,k) == <<P(ct,k), P(ct,k+1), P(ct,k+2), P(ct,k)>>
G(t,ct,c) == [t |-> t, ct |-> ct, c |-> c]
Fam(ct) == <<
  G("Point",ct,<<>>), G("Point",ct,P(ct,1)),
  G("LineString",ct,<<>>), G("LineString",ct,<<P(ct,1),P(ct,2)>>),
  G("Polygon",ct,<<>>), G("Polygon",ct,<<Ring(ct,1),Ring(ct,4)>>),
  G("MultiPoint",ct,<<>>), G("MultiPoint",ct,<<P(ct,1),<<>>,P(ct,3)>>), G("MultiPoint",ct,<< <<>> >>),
  G("MultiLineString",ct,<<>>), G("MultiLineString",ct,<< <<P(ct,1),P(ct,2)>>, <<>> >>),
  G("MultiPolygon",ct,<<>>), G("MultiPolygon",ct,<< <<Ring(ct,2)>>, <<>> >>),
  G("GeometryCollection",ct,<<>>),
  G("GeometryCollection",ct,<<G("Point",ct,P(ct,2)), G("Point",ct,<<>>), G("MultiPoint",ct,<<P(ct,1),P(ct,5)>>)>>),
  G("GeometryCollection",ct,<<G("Point",ct,<<>>), G("Polygon",ct,<<>>)>>),
  G("GeometryCollection",ct,<<G("GeometryCollection",ct,<<G("MultiPoint",ct,<<P(ct,1),<<>>>>)>>), G("Polygon",ct,<<>>)>>),
  G("GeometryCollection",ct,<<G("GeometryCollection",ct,<<>>), G("MultiPolygon",ct,<< <<Ring(ct,3)>> >>)>>)
>>
FamilySeq == Fam("XY") \o Fam("XYZ") \o Fam("XYM") \o Fam("XYZM")
\* the document an encoder writes for a tree that already carries only what the format can express
RECURSIVE ToDoc(_)
ToDoc(g) == IF g.t = "GeometryCollection"
            THEN [type |-> g.t, keys |-> <<"geometries","type">>, coordinates |-> <<>>, geometries |-> [i \in 1..Len(g.c) |-> ToDoc(g.c[i])]]
            ELSE [type |-> g.t, keys |-> <<"coordinates","type">>, coordinates |-> g.c, geometries |-> <<>>]
=============================================================================
