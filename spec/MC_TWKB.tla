------------------------------ MODULE MC_TWKB ------------------------------
(* (M) for C07: on a family of small geometries (all 7 types, empty members, *)
(* nested collections, 2 and 3 dimensions) x every option subset             *)
(* {size, bbox, closed rings, ids} x precision {-1,0,2}, the reference       *)
(* reader inverts the reference writer and the headers are truthful.         *)
EXTENDS TWKBFamily
CONSTANT AllPrefixes
VARIABLES g, o
Init == \E i \in 1..Len(FamilySeq) :
          \/ g = FamilySeq[i] /\ o \in Opts(g,2)
          \/ g = Lift(FamilySeq[i]) /\ o \in Opts(g,3)
Next == UNCHANGED <<g,o>>
Spec == Init /\ [][Next]_<<g,o>>
Inv == CheckRT(g, o)
\* the reader never leaves its input: on every truncation of an encoding it terminates, and what it accepts ends inside
\* the input (evaluating Geom on a prefix must not index past the end - TLC would report that as an error)
Prefixes(b) == IF AllPrefixes THEN 0..(Len(b)-1) ELSE {0, 1, 2, Len(b) \div 2, Len(b)-2, Len(b)-1} \cap 0..(Len(b)-1)
NoOverrun == LET b == W(g, o, TRUE) IN \A k \in Prefixes(b) : LET r == Geom(SubSeq(b,1,k), 1) IN ~r.ok \/ r.pos <= k + 1
=============================================================================
