------------------------------ MODULE MC_TWKB ------------------------------
(* (M) for C07: on a family of small geometries (all 7 types, empty members, *)
(* nested collections, 2 and 3 dimensions) x every option subset             *)
(* {size, bbox, closed rings, ids} x precision {-1,0,2}, the reference       *)
(* reader inverts the reference writer and the headers are truthful.         *)
EXTENDS TWKBFamily
VARIABLES g, o
Init == \E i \in 1..Len(FamilySeq) :
          \/ g = FamilySeq[i] /\ o \in Opts(g,2)
          \/ g = Lift(FamilySeq[i]) /\ o \in Opts(g,3)
Next == UNCHANGED <<g,o>>
Spec == Init /\ [][Next]_<<g,o>>
Inv == CheckRT(g, o)
=============================================================================
