----------------------------- MODULE WKTFamily -----------------------------
(* Small abstract geometries for MC_WKT / Gen_WKT (numbers from NumTable).   *)
EXTENDS WKT
NB == <<"3ff0000000000000", "c000000000000000", "3fe0000000000000", "8000000000000000", "4059000000000000", "bff0000000000000">>
P(ct,k) == [i \in 1..DimOf(ct) |-> NB[((k + i) % 6) + 1]]
Ring(ct,k) == <<P(ct,k), P(ct,k+1), P(ct,k+2), P(ct,k)>>
G(t,ct,c) == [t |-> t, ct |-> ct, c |-> c]
Fam(ct) == <<
  G("Point",ct,<<>>), G("Point",ct,P(ct,1)),
  G("LineString",ct,<<>>), G("LineString",ct,<<P(ct,1),P(ct,2)>>),
  G("Polygon",ct,<<>>), G("Polygon",ct,<<Ring(ct,1),Ring(ct,4)>>),
  G("MultiPoint",ct,<<>>), G("MultiPoint",ct,<<P(ct,1),<<>>,P(ct,3)>>), G("MultiPoint",ct,<< <<>> >>),
  G("MultiLineString",ct,<<>>), G("MultiLineString",ct,<< <<P(ct,1),P(ct,2)>>, <<>> >>),
  G("MultiPolygon",ct,<<>>), G("MultiPolygon",ct,<< <<Ring(ct,2)>>, <<>> >>),
  G("GeometryCollection",ct,<<>>),
  G("GeometryCollection",ct,<<G("Point",ct,P(ct,2)), G("Point",ct,<<>>), G("MultiPoint",ct,<<P(ct,1),P(ct,5)>>)>>),
  G("GeometryCollection",ct,<<G("GeometryCollection",ct,<<G("MultiPoint",ct,<<P(ct,1),<<>>>>)>>), G("Polygon",ct,<<>>)>>),
  G("GeometryCollection",ct,<<G("GeometryCollection",ct,<<>>), G("MultiPolygon",ct,<< <<Ring(ct,3)>> >>)>>)
>>
FamilySeq == Fam("XY") \o Fam("XYZ") \o Fam("XYM") \o Fam("XYZM")

\* ---- re-spellings
\* token level: keyword case, numeral spelling, bare MultiPoint members
Kw(tok, style) == LET k == KwIndex(tok) IN IF k = 0 THEN tok ELSE IF style = 1 THEN KwUpper[k] ELSE IF style = 2 THEN KwLower[k] ELSE KwMixed[k]
Numeral(tok, n) == IF \E i \in 1..Len(NumTable) : NumTable[i].sp[1] = tok
                   THEN NumTable[CHOOSE i \in 1..Len(NumTable) : NumTable[i].sp[1] = tok].sp[n] ELSE tok
\* remove the parentheses around MultiPoint members: only valid inside a MULTIPOINT body; done on the tree
PtToksN(p,n) == FlatT([i \in 1..Len(p) |-> LET t == NumToks(p[i]) IN [j \in 1..Len(t) |-> Numeral(t[j], n)]])
\* the parentheses are optional per member: mode 0 none bare, 1 all bare, 2 the odd members bare, 3 the even members bare
BareModes == 0..3
BareAt(mode, i) == mode = 1 \/ (mode = 2 /\ i % 2 = 1) \/ (mode = 3 /\ i % 2 = 0)
RECURSIVE Respell(_,_,_,_)
Respell(g, kw, n, bare) ==
  LET k == CHOOSE i \in 1..7 : TypeNames[i] = g.t
      base == PrintG(g)
      tokmap(ts) == [j \in 1..Len(ts) |-> Numeral(Kw(ts[j], kw), n)]
  IN IF g.c = <<>> \/ k \notin {4,7} THEN tokmap(base)
     ELSE IF k = 4 THEN <<Kw(KwUpper[4], kw)>> \o Tag(g.ct) \o
             Paren(Commas([i \in 1..Len(g.c) |-> IF g.c[i] = <<>> THEN <<"EMPTY">>
                                                  ELSE IF BareAt(bare, i) THEN PtToksN(g.c[i], n) ELSE Paren(PtToksN(g.c[i], n))]))
     ELSE <<Kw(KwUpper[7], kw)>> \o Tag(g.ct) \o Paren(Commas([i \in 1..Len(g.c) |-> Respell(g.c[i], kw, n, bare)]))
\* character level: join the tokens with a separator; around punctuation the separator is optional
IsPunct(t) == t \in {"(", ")", ","}
RECURSIVE Join(_,_,_)
Join(ts, sep, tight) == IF Len(ts) = 1 THEN ts[1]
   ELSE LET a == ts[1] b == ts[2]
            s == IF tight /\ (IsPunct(a) \/ IsPunct(b)) /\ ~(a = "-") THEN "" ELSE IF a = "-" THEN "" ELSE sep
        IN a \o s \o Join(Tail(ts), sep, tight)
Seps == <<" ", "\t", "\n", "  \n\t ">>
=============================================================================
