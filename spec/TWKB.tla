-------------------------------- MODULE TWKB --------------------------------
(* C07: reader and writer for Tiny WKB written from the format specification  *)
(* (github.com/TWKB/Specification), as recursive parser / writer machines over*)
(* byte sequences.  Ordinates are integers on the decimal grid of the         *)
(* precision.  A geometry is [t, e, c (, ids)]:                               *)
(*   t: 1 Point 2 LineString 3 Polygon 4 MultiPoint 5 MultiLineString         *)
(*      6 MultiPolygon 7 GeometryCollection;  e: empty flag                   *)
(*   c: Point <<p>>; LineString <<p..>>; Polygon <<ring..>>; MultiPoint       *)
(*      <<p..>>; MultiLineString <<line..>>; MultiPolygon <<poly..>>;         *)
(*      GeometryCollection <<geometry..>>;  p = tuple of d integers           *)
EXTENDS Integers, Sequences, FiniteSets, TLC

Bit(x,k) == (x \div k) % 2 = 1      \* k is a power of two
UnZig(z) == IF z % 2 = 0 THEN z \div 2 ELSE -((z + 1) \div 2)
ZigZag(n) == IF n >= 0 THEN 2*n ELSE -2*n - 1

\* ---------------------------------------------------------------- reader
RECURSIVE UV(_,_,_,_)
\* values that do not fit TLC's 32-bit integers make the read fail (never an overflow error)
UV(b,pos,mul,acc) == IF pos > Len(b) THEN [ok |-> FALSE, v |-> 0, pos |-> pos]
                     ELSE IF mul > 268435456 \/ (mul = 268435456 /\ b[pos] % 128 >= 8) THEN [ok |-> FALSE, v |-> 0, pos |-> pos]
                     ELSE LET x == b[pos] IN
                          IF x < 128 THEN [ok |-> TRUE, v |-> acc + x*mul, pos |-> pos+1]
                          ELSE UV(b, pos+1, mul*128, acc + (x-128)*mul)
ReadU(b,pos) == UV(b,pos,1,0)
ReadS(b,pos) == LET r == ReadU(b,pos) IN [ok |-> r.ok, v |-> UnZig(r.v), pos |-> r.pos]

RECURSIVE ReadSN(_,_,_)
ReadSN(b,pos,n) == IF n = 0 THEN [ok |-> TRUE, vs |-> <<>>, pos |-> pos]
                   ELSE LET r == ReadS(b,pos) IN IF ~r.ok THEN [ok |-> FALSE, vs |-> <<>>, pos |-> pos]
                        ELSE LET rest == ReadSN(b, r.pos, n-1) IN
                             [ok |-> rest.ok, vs |-> <<r.v>> \o rest.vs, pos |-> rest.pos]

AddV(a,b) == [i \in 1..Len(a) |-> a[i] + b[i]]
Zero(d) == [i \in 1..d |-> 0]

\* n points of d dimensions, delta-coded against the running reference point
RECURSIVE PtArr(_,_,_,_,_)
PtArr(b,pos,n,d,ref) == IF n = 0 THEN [ok |-> TRUE, pts |-> <<>>, pos |-> pos, ref |-> ref]
   ELSE LET r == ReadSN(b,pos,d) IN IF ~r.ok THEN [ok |-> FALSE, pts |-> <<>>, pos |-> pos, ref |-> ref]
        ELSE LET p == AddV(ref, r.vs) rest == PtArr(b, r.pos, n-1, d, p) IN
             [ok |-> rest.ok, pts |-> <<p>> \o rest.pts, pos |-> rest.pos, ref |-> rest.ref]
CountedArr(b,pos,d,ref) == LET c == ReadU(b,pos) IN IF ~c.ok THEN [ok |-> FALSE, pts |-> <<>>, pos |-> pos, ref |-> ref]
                           ELSE PtArr(b,c.pos,c.v,d,ref)
\* rings may be stored without their closing point
CloseRing(pts) == IF Len(pts) >= 2 /\ pts[1] # pts[Len(pts)] THEN Append(pts, pts[1]) ELSE pts

RECURSIVE Rings(_,_,_,_,_)
Rings(b,pos,n,d,ref) == IF n = 0 THEN [ok |-> TRUE, v |-> <<>>, pos |-> pos, ref |-> ref]
   ELSE LET r == CountedArr(b,pos,d,ref) IN IF ~r.ok THEN [ok |-> FALSE, v |-> <<>>, pos |-> pos, ref |-> ref]
        ELSE LET rest == Rings(b,r.pos,n-1,d,r.ref) IN
             [ok |-> rest.ok, v |-> <<CloseRing(r.pts)>> \o rest.v, pos |-> rest.pos, ref |-> rest.ref]
Poly(b,pos,d,ref) == LET c == ReadU(b,pos) IN IF ~c.ok THEN [ok |-> FALSE, v |-> <<>>, pos |-> pos, ref |-> ref]
                     ELSE Rings(b,c.pos,c.v,d,ref)
RECURSIVE Lines(_,_,_,_,_)
Lines(b,pos,n,d,ref) == IF n = 0 THEN [ok |-> TRUE, v |-> <<>>, pos |-> pos, ref |-> ref]
   ELSE LET r == CountedArr(b,pos,d,ref) IN IF ~r.ok THEN [ok |-> FALSE, v |-> <<>>, pos |-> pos, ref |-> ref]
        ELSE LET rest == Lines(b,r.pos,n-1,d,r.ref) IN
             [ok |-> rest.ok, v |-> <<r.pts>> \o rest.v, pos |-> rest.pos, ref |-> rest.ref]
RECURSIVE Polys(_,_,_,_,_)
Polys(b,pos,n,d,ref) == IF n = 0 THEN [ok |-> TRUE, v |-> <<>>, pos |-> pos, ref |-> ref]
   ELSE LET r == Poly(b,pos,d,ref) IN IF ~r.ok THEN [ok |-> FALSE, v |-> <<>>, pos |-> pos, ref |-> ref]
        ELSE LET rest == Polys(b,r.pos,n-1,d,r.ref) IN
             [ok |-> rest.ok, v |-> <<r.v>> \o rest.v, pos |-> rest.pos, ref |-> rest.ref]

\* one geometry starting at pos0 -> [ok, g, pos]
\*   g = [t, e, ct, prec, pz, pm, size, sizeEnd, hasBBox, bbox, hasIDs, ids, c]
RECURSIVE Geom(_,_)
RECURSIVE Geoms(_,_,_)
Geoms(b,pos,n) == IF n = 0 THEN [ok |-> TRUE, v |-> <<>>, pos |-> pos]
   ELSE LET r == Geom(b,pos) IN IF ~r.ok THEN [ok |-> FALSE, v |-> <<>>, pos |-> pos]
        ELSE LET rest == Geoms(b,r.pos,n-1) IN [ok |-> rest.ok, v |-> <<r.g>> \o rest.v, pos |-> rest.pos]

Geom(b,pos0) ==
  IF pos0 + 1 > Len(b) THEN [ok |-> FALSE, g |-> <<>>, pos |-> pos0] ELSE
  LET tp == b[pos0]  t == tp % 16  prec == UnZig(tp \div 16)
      md == b[pos0+1]
      hasBBox == Bit(md,1) hasSize == Bit(md,2) hasIDs == Bit(md,4) hasExt == Bit(md,8) isEmpty == Bit(md,16)
      p1 == pos0 + 2
      okExt == ~hasExt \/ p1 <= Len(b)
      ext == IF hasExt /\ p1 <= Len(b) THEN b[p1] ELSE 0
      hasZ == Bit(ext,1) hasM == Bit(ext,2)
      pz == IF hasZ THEN (ext \div 4) % 8 ELSE 0
      pm == IF hasM THEN (ext \div 32) % 8 ELSE 0
      d == 2 + (IF hasZ THEN 1 ELSE 0) + (IF hasM THEN 1 ELSE 0)
      ct == IF hasZ /\ hasM THEN "XYZM" ELSE IF hasZ THEN "XYZ" ELSE IF hasM THEN "XYM" ELSE "XY"
      p2 == IF hasExt THEN p1 + 1 ELSE p1
      sz == IF hasSize THEN ReadU(b,p2) ELSE [ok |-> TRUE, v |-> -1, pos |-> p2]
      bb == IF hasBBox THEN ReadSN(b, sz.pos, 2*d) ELSE [ok |-> TRUE, vs |-> <<>>, pos |-> sz.pos]
      p3 == bb.pos
      Ret(ok,c,ids,pos) == [ok |-> ok, pos |-> pos,
                            g |-> [t |-> t, e |-> isEmpty, ct |-> ct, prec |-> prec, pz |-> pz, pm |-> pm, size |-> sz.v,
                                   sizeEnd |-> sz.pos, hasBBox |-> hasBBox, bbox |-> bb.vs, hasIDs |-> hasIDs, ids |-> ids, c |-> c]]
  IN IF ~okExt \/ ~sz.ok \/ ~bb.ok THEN [ok |-> FALSE, g |-> <<>>, pos |-> pos0]
     ELSE IF t \in {1,2,3} /\ hasIDs THEN [ok |-> FALSE, g |-> <<>>, pos |-> pos0]
     ELSE IF isEmpty THEN Ret(t \in 1..7, <<>>, <<>>, p3)
     ELSE CASE t = 1 -> (LET r == PtArr(b,p3,1,d,Zero(d)) IN Ret(r.ok, r.pts, <<>>, r.pos))
            [] t = 2 -> (LET r == CountedArr(b,p3,d,Zero(d)) IN Ret(r.ok, r.pts, <<>>, r.pos))
            [] t = 3 -> (LET r == Poly(b,p3,d,Zero(d)) IN Ret(r.ok, r.v, <<>>, r.pos))
            [] t \in {4,5,6,7} ->
                 (LET c == ReadU(b,p3)
                      ids == IF hasIDs /\ c.ok THEN ReadSN(b,c.pos,c.v) ELSE [ok |-> TRUE, vs |-> <<>>, pos |-> c.pos]
                  IN IF ~c.ok \/ ~ids.ok THEN Ret(FALSE, <<>>, <<>>, p3)
                     ELSE (IF t = 4 THEN LET r == PtArr(b,ids.pos,c.v,d,Zero(d)) IN Ret(r.ok, r.pts, ids.vs, r.pos)
                           ELSE IF t = 5 THEN LET r == Lines(b,ids.pos,c.v,d,Zero(d)) IN Ret(r.ok, r.v, ids.vs, r.pos)
                           ELSE IF t = 6 THEN LET r == Polys(b,ids.pos,c.v,d,Zero(d)) IN Ret(r.ok, r.v, ids.vs, r.pos)
                           ELSE LET r == Geoms(b,ids.pos,c.v) IN Ret(r.ok, r.v, ids.vs, r.pos)))
            [] OTHER -> Ret(FALSE, <<>>, <<>>, p3)

\* all points of a parsed geometry
RECURSIVE PtsOf(_)
PtsOf(g) == IF g.e THEN {} ELSE
   CASE g.t = 1 -> {g.c[1]}
     [] g.t = 2 \/ g.t = 4 -> {g.c[i] : i \in 1..Len(g.c)}
     [] g.t = 3 \/ g.t = 5 -> UNION {{g.c[i][j] : j \in 1..Len(g.c[i])} : i \in 1..Len(g.c)}
     [] g.t = 6 -> UNION {UNION {{g.c[i][k][j] : j \in 1..Len(g.c[i][k])} : k \in 1..Len(g.c[i])} : i \in 1..Len(g.c)}
     [] g.t = 7 -> UNION {PtsOf(g.c[i]) : i \in 1..Len(g.c)}
MinS(S) == CHOOSE x \in S : \A y \in S : x <= y
MaxS(S) == CHOOSE x \in S : \A y \in S : x >= y
\* bbox header content for the points P: (min, max - min) per dimension
BBoxOfPts(P,d) == IF P = {} THEN <<>> ELSE
   [k \in 1..(2*d) |-> LET i == (k+1) \div 2 lo == MinS({p[i] : p \in P}) hi == MaxS({p[i] : p \in P})
                       IN IF k % 2 = 1 THEN lo ELSE hi - lo]
BBoxOf(g,d) == BBoxOfPts(PtsOf(g), d)

\* structural projection [t, e, c]
RECURSIVE Proj(_)
Proj(g) == IF g.t = 7 THEN [t |-> 7, e |-> g.e, c |-> IF g.e THEN <<>> ELSE [i \in 1..Len(g.c) |-> Proj(g.c[i])]]
           ELSE [t |-> g.t, e |-> g.e, c |-> IF g.e THEN <<>> ELSE g.c]

\* ---------------------------------------------------------------- writer
RECURSIVE UVar(_)
UVar(n) == IF n < 128 THEN <<n>> ELSE <<(n % 128) + 128>> \o UVar(n \div 128)
SVar(n) == UVar(ZigZag(n))
RECURSIVE Flat(_)
Flat(ss) == IF ss = <<>> THEN <<>> ELSE Head(ss) \o Flat(Tail(ss))

RECURSIVE PA(_,_)
PA(pts, ref) == IF pts = <<>> THEN [b |-> <<>>, ref |-> ref]
                ELSE LET p == Head(pts)
                         bs == Flat([i \in 1..Len(p) |-> SVar(p[i] - ref[i])])
                         r == PA(Tail(pts), p)
                     IN [b |-> bs \o r.b, ref |-> r.ref]
Counted(pts, ref) == LET r == PA(pts, ref) IN [b |-> UVar(Len(pts)) \o r.b, ref |-> r.ref]
OpenRing(r, closed) == IF closed \/ Len(r) < 2 THEN r ELSE SubSeq(r, 1, Len(r)-1)
RECURSIVE RingsB(_,_,_)
RingsB(rs, ref, closed) == IF rs = <<>> THEN [b |-> <<>>, ref |-> ref]
    ELSE LET a == Counted(OpenRing(Head(rs), closed), ref) r == RingsB(Tail(rs), a.ref, closed) IN [b |-> a.b \o r.b, ref |-> r.ref]
PolyB(rs, ref, closed) == LET r == RingsB(rs, ref, closed) IN [b |-> UVar(Len(rs)) \o r.b, ref |-> r.ref]
RECURSIVE LinesB(_,_)
LinesB(ls, ref) == IF ls = <<>> THEN [b |-> <<>>, ref |-> ref]
    ELSE LET a == Counted(Head(ls), ref) r == LinesB(Tail(ls), a.ref) IN [b |-> a.b \o r.b, ref |-> r.ref]
RECURSIVE PolysB(_,_,_)
PolysB(ps, ref, closed) == IF ps = <<>> THEN [b |-> <<>>, ref |-> ref]
    ELSE LET a == PolyB(Head(ps), ref, closed) r == PolysB(Tail(ps), a.ref, closed) IN [b |-> a.b \o r.b, ref |-> r.ref]

\* options o = [size, bbox, closed : BOOLEAN, prec : Int, d : 2..4, ids : sequence (<<>> = none)]
\* The bbox of a collection covers everything written, including the members (accumulated through
\* the sub-writers); members carry no bbox and no ids of their own.
RECURSIVE W(_,_,_)
W(g, o, top) ==
  LET tp == ZigZag(o.prec)*16 + g.t
      ext == IF o.d = 3 THEN <<1>> ELSE IF o.d = 4 THEN <<3>> ELSE <<>>
  IN IF g.e THEN <<tp, 16>>
     ELSE LET z == Zero(o.d)
              useIDs == top /\ o.ids # <<>> /\ g.t \in {4,5,6,7}
              idb == IF useIDs THEN Flat([i \in 1..Len(o.ids) |-> SVar(o.ids[i])]) ELSE <<>>
              body == CASE g.t = 1 -> PA(g.c, z).b
                        [] g.t = 2 -> Counted(g.c, z).b
                        [] g.t = 3 -> PolyB(g.c, z, o.closed).b
                        [] g.t = 4 -> UVar(Len(g.c)) \o idb \o PA(g.c, z).b
                        [] g.t = 5 -> UVar(Len(g.c)) \o idb \o LinesB(g.c, z).b
                        [] g.t = 6 -> UVar(Len(g.c)) \o idb \o PolysB(g.c, z, o.closed).b
                        [] g.t = 7 -> UVar(Len(g.c)) \o idb \o Flat([i \in 1..Len(g.c) |-> W(g.c[i], o, FALSE)])
              pg == [t |-> g.t, e |-> FALSE, c |-> g.c]
              wantBB == o.bbox /\ top
              bb == IF wantBB THEN Flat([k \in 1..(2*o.d) |-> SVar(BBoxOf(pg, o.d)[k])]) ELSE <<>>
              md == (IF wantBB THEN 1 ELSE 0) + (IF o.size THEN 2 ELSE 0) + (IF useIDs THEN 4 ELSE 0) + (IF o.d > 2 THEN 8 ELSE 0)
              sz == IF o.size THEN UVar(Len(bb) + Len(body)) ELSE <<>>
          IN <<tp, md>> \o ext \o sz \o bb \o body

\* the round trip and header claims on the reference model
CheckRT(g, o) ==
  LET bytes == W(g, o, TRUE) r == Geom(bytes, 1) IN
  /\ r.ok /\ r.pos = Len(bytes) + 1
  /\ Proj(r.g) = g
  /\ (o.size /\ ~g.e => r.g.size = Len(bytes) - (r.g.sizeEnd - 1))
  /\ (o.bbox /\ ~g.e /\ PtsOf(r.g) # {} => r.g.hasBBox /\ r.g.bbox = BBoxOf(r.g, o.d))
  /\ (o.ids # <<>> /\ ~g.e /\ g.t \in {4,5,6,7} => r.g.hasIDs /\ r.g.ids = o.ids)
=============================================================================
