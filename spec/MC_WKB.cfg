SPECIFICATION Spec
INVARIANT RoundTrip Truncation
CHECK_DEADLOCK FALSE
