------------------------------- MODULE Empties -------------------------------
(* C20: empty, zero-value and mixed-empty geometries.                         *)
(*  - the neutral answers of an all-empty geometry, as functions of its tree  *)
(*  - transparency: InsertEmpty / RemoveEmpty never change an observation     *)
(*    (an action property over histories, checked in Trace_Empties)           *)
EXTENDS AbstractGeom, TLC

CTs == <<"XY","XYZ","XYM","XYZM">>
LeafTypes == <<"Point","LineString","Polygon","MultiPoint","MultiLineString","MultiPolygon">>
Max2(a,b) == IF a > b THEN a ELSE b
\* Dimension is structural: it counts empty members too (documented)
RECURSIVE TreeDim(_)
TreeDim(t) == CASE t.t \in {"Point","MultiPoint"} -> 0
                [] t.t \in {"LineString","MultiLineString"} -> 1
                [] t.t \in {"Polygon","MultiPolygon"} -> 2
                [] OTHER -> LET f[i \in 0..Len(t.c)] == IF i = 0 THEN 0 ELSE Max2(f[i-1], TreeDim(t.c[i])) IN f[Len(t.c)]
Empty(t,ct) == [t |-> t, ct |-> ct, c |-> <<>>]
\* all-empty shapes: typed empties, Multi* of empty members, collections of 1..2 empties (possibly nested)
MultiEmpties(ct) == <<[t |-> "MultiPoint", ct |-> ct, c |-> << <<>> >>], [t |-> "MultiPoint", ct |-> ct, c |-> << <<>>, <<>> >>],
                      [t |-> "MultiLineString", ct |-> ct, c |-> << <<>> >>], [t |-> "MultiPolygon", ct |-> ct, c |-> << <<>>, <<>> >>]>>
Leaves(ct) == [i \in 1..6 |-> Empty(LeafTypes[i], ct)] \o <<Empty("GeometryCollection", ct)>> \o MultiEmpties(ct)
=============================================================================
