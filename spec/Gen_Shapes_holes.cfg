SPECIFICATION Spec
CONSTANTS
  N = 3
  Kinds = {"p","s","t","q","h","c"}
CHECK_DEADLOCK FALSE
