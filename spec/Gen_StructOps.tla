---------------------------- MODULE Gen_StructOps ----------------------------
(* (G) for C16: every transition of the bounded state graph of MC_StructOps    *)
(* (pre-state, action, argument) is emitted once as a one-step history for the *)
(* real library.                                                               *)
EXTENDS StructFamily, Json
CONSTANT MaxOps
VARIABLES g, n
Init == n = 0 /\ \E i \in 1..Len(StartSeq) : g = StartSeq[i]
NoArg == [ct |-> ""]
Emit(act, arg) == PrintT(ToJson([k |-> "CASE", start |-> g, steps |-> <<[act |-> act, arg |-> arg]>>]))
Acts == {"force2d","reverse","swapxy","asmulti","mkgc1","snap0","densify","wkb","wkt","forcecw","forceccw","viactor","geojson"}
Step == /\ n < MaxOps /\ n' = n + 1
        /\ \/ \E a \in Acts : g' = Apply(a, NoArg, g) /\ Emit(a, NoArg)
           \/ \E ct \in CTs : g' = Force(g, ct) /\ Emit("force", [ct |-> ct])
           \/ \E k \in 1..Len(Others("")) : g.t # "GeometryCollection" /\ g' = MkGC(<<g, Others("")[k]>>) /\ Emit("mkgc", Others("")[k])
           \/ \E k \in 1..Len(Others(g.t)) : g.t \in {"Point","LineString","Polygon"} /\ g' = MkMulti(<<g, Others(g.t)[k]>>) /\ Emit("mkmulti", Others(g.t)[k])
           \/ \E k \in 1..Len(Others("LineString")) : g.t = "LineString" /\ g.c # <<>> /\ Others("LineString")[k].c # <<>>
                                                        /\ g' = MkPoly(<<g, Others("LineString")[k]>>) /\ Emit("mkpoly", Others("LineString")[k])
Spec == Init /\ [][Step]_<<g,n>>
=============================================================================
