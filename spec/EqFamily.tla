------------------------------ MODULE EqFamily ------------------------------
(* Families for MC_Equality / Gen_Equality: base geometries (members 0..4,   *)
(* with duplicate members), and the variants that differ in exactly one     *)
(* respect or only by order.                                                *)
EXTENDS Equality
XT == <<"3ff0000000000000", "4000000000000000", "4008000000000000", "4010000000000000", "4014000000000000", "4018000000000000", "401c000000000000", "4020000000000000", "4022000000000000">>
YT == <<"3ff0000000000000", "4010000000000000", "4022000000000000", "4030000000000000", "4039000000000000", "4042000000000000", "4048800000000000", "4050000000000000", "4054400000000000">>
MagT == <<"0000000000000001", "16687e92154ef7ac", "7e37e43c8800759c", "8000000000000000", "0000000000000000", "3fb999999999999a">>
HexDigits == <<"0","1","2","3","4","5","6","7","8","9","a","b","c","d","e","f">>
HexVal(ch) == CHOOSE i \in 0..15 : HexDigits[i+1] = ch
\* the neighbouring float (one ulp up in magnitude): add one to the last hexadecimal digit (never f in the tables)
Ulp(t) == SubSeq(t,1,15) \o HexDigits[HexVal(SubSeq(t,16,16)) + 2]
HasZ(ct) == ct \in {"XYZ","XYZM"}
HasM(ct) == ct \in {"XYM","XYZM"}
V(i,ct) == <<XT[i], YT[i]>> \o (IF HasZ(ct) THEN <<XT[((i+3) % 9) + 1]>> ELSE <<>>) \o (IF HasM(ct) THEN <<XT[((i+5) % 9) + 1]>> ELSE <<>>)
VM(k,ct) == <<MagT[k], MagT[((k+1) % 6) + 1]>> \o (IF HasZ(ct) THEN <<MagT[((k+2) % 6) + 1]>> ELSE <<>>) \o (IF HasM(ct) THEN <<MagT[((k+3) % 6) + 1]>> ELSE <<>>)
ZP(ct) == <<ZeroTok, ZeroTok>> \o (IF HasZ(ct) THEN <<ZeroTok>> ELSE <<>>) \o (IF HasM(ct) THEN <<ZeroTok>> ELSE <<>>)
G(t,ct,c) == [t |-> t, ct |-> ct, c |-> c]
Tri(ct,b) == <<V(b,ct), V(b+1,ct), V(b+2,ct), V(b,ct)>>
Quad(ct,b) == <<V(b,ct), V(b+1,ct), V(b+2,ct), V(b+3,ct), V(b,ct)>>
Base(ct) == <<
  G("Point",ct,V(1,ct)), G("Point",ct,VM(1,ct)), G("Point",ct,VM(2,ct)), G("Point",ct,VM(3,ct)), G("Point",ct,VM(4,ct)), G("Point",ct,<<>>),
  G("LineString",ct,<<V(1,ct),V(2,ct),V(3,ct)>>), G("LineString",ct,Quad(ct,1)), G("LineString",ct,<<>>),
  G("Polygon",ct,<<Quad(ct,1), Tri(ct,5), Tri(ct,5), Tri(ct,2)>>), G("Polygon",ct,<<Tri(ct,1)>>), G("Polygon",ct,<<>>),
  G("MultiPoint",ct,<<V(1,ct),V(2,ct),V(1,ct),<<>>>>), G("MultiPoint",ct,<<>>),
  \* the point whose ordinates are all zero next to an empty member: an empty Point stores no ordinates, not zeros
  G("MultiPoint",ct,<<ZP(ct),V(2,ct),<<>>>>), G("MultiPoint",ct,<<ZP(ct)>>), G("Point",ct,ZP(ct)),
  G("GeometryCollection",ct,<<G("Point",ct,ZP(ct)), G("Point",ct,<<>>), G("MultiPoint",ct,<<ZP(ct),<<>>>>)>>),
  G("MultiLineString",ct,<< <<V(1,ct),V(2,ct)>>, <<V(2,ct),V(1,ct)>>, <<>>, Tri(ct,3) >>),
  G("MultiPolygon",ct,<< <<Tri(ct,1)>>, <<Tri(ct,1)>>, <<Quad(ct,4),Tri(ct,2)>>, <<>> >>),
  G("GeometryCollection",ct,<<G("Point",ct,V(1,ct)), G("Point",ct,V(1,ct)), G("LineString",ct,<<V(1,ct),V(2,ct)>>), G("Point",ct,<<>>)>>),
  G("GeometryCollection",ct,<<G("GeometryCollection",ct,<<G("Point",ct,V(2,ct)), G("Point",ct,V(3,ct))>>), G("MultiPoint",ct,<<V(2,ct),V(3,ct)>>), G("GeometryCollection",ct,<<G("Point",ct,V(3,ct)), G("Point",ct,V(2,ct))>>)>>),
  G("GeometryCollection",ct,<<>>) >>
\* geometries whose only content is an empty member (dropping it leaves the plain empty geometry of the type)
OnlyEmpty(ct) == << G("MultiPoint",ct,<< <<>> >>), G("MultiLineString",ct,<< <<>> >>), G("MultiPolygon",ct,<< <<>> >>),
                    G("GeometryCollection",ct,<<G("Point",ct,<<>>)>>), G("GeometryCollection",ct,<<G("MultiPoint",ct,<< <<>> >>)>>),
                    G("MultiPoint",ct,<< <<>>, <<>> >>) >>
BaseSeq == Base("XY") \o Base("XYZM") \o OnlyEmpty("XY") \o OnlyEmpty("XYZ")
\* g inside k nested GeometryCollections (next to a fixed point, so that the collection is not empty)
RECURSIVE Wrap(_,_)
Wrap(g,k) == IF k = 0 THEN g ELSE G("GeometryCollection", g.ct, <<Wrap(g,k-1), G("Point", g.ct, V(7,g.ct))>>)

RECURSIVE PermsOf(_)
PermsOf(S) == IF S = {} THEN {<<>>} ELSE UNION {{<<x>> \o p : p \in PermsOf(S \ {x})} : x \in S}
Permute(s, p) == [i \in 1..Len(s) |-> s[p[i]]]
RotRing(r, k) == LET n == Len(r) - 1 IN [i \in 1..(n+1) |-> r[((i - 1 + k) % n) + 1]]
\* first token of the first vertex found, replaced by its neighbour
RECURSIVE Bump(_)
BumpPt(p) == <<Ulp(p[1])>> \o SubSeq(p,2,Len(p))
BumpLast(p) == SubSeq(p,1,Len(p)-1) \o <<Ulp(p[Len(p)])>>
Bump(g) == CASE g.c = <<>> -> g
             [] g.t = "Point" -> [g EXCEPT !.c = BumpPt(g.c)]
             [] g.t \in {"LineString","MultiPoint"} -> (IF g.c[1] = <<>> THEN g ELSE [g EXCEPT !.c[1] = BumpPt(g.c[1])])
             [] g.t \in {"Polygon","MultiLineString"} -> (IF g.c[Len(g.c)] = <<>> THEN g ELSE [g EXCEPT !.c[Len(g.c)][2] = BumpLast(g.c[Len(g.c)][2])])
             [] g.t = "MultiPolygon" -> [g EXCEPT !.c[1][1][2] = BumpPt(g.c[1][1][2])]
             [] OTHER -> [g EXCEPT !.c[1] = Bump(g.c[1])]
EmptyOf(t, ct) == G(t, ct, <<>>)
\* ---- variants, described by <<kind, p, k>> (a set of comparable descriptors; the trees themselves differ in shape)
Descr(g) ==
  LET n == Len(g.c) IN
  {<<"same", <<>>, 0>>, <<"bump", <<>>, 0>>, <<"force", <<>>, 0>>, <<"asmulti", <<>>, 0>>}
  \cup (IF g.t = "Point" /\ n > 0 THEN {<<"emptypt", <<>>, 0>>} ELSE {})
  \cup (IF n > 0 /\ g.t # "Point" THEN {<<"drop", <<>>, k>> : k \in 1..n} \cup {<<"empty", <<>>, k>> : k \in 1..n} ELSE {})
  \cup (CASE g.t = "LineString" -> {<<"rev", <<>>, 0>>} \cup (IF Closed(g.c) /\ n >= 4 THEN {<<"rot", <<>>, k>> : k \in 1..(n-2)} \cup {<<"rotrev", <<>>, k>> : k \in 1..(n-2)} ELSE {})
           [] g.t = "Polygon" -> (IF n = 0 THEN {} ELSE {<<"holes", p, 0>> : p \in PermsOf(1..(n-1))} \cup {<<"ringrot", <<>>, k>> : k \in 1..n} \cup {<<"ringsrev", <<>>, 0>>})
           [] g.t \in {"MultiPoint","MultiLineString","MultiPolygon","GeometryCollection"} ->
                {<<"perm", p, 0>> : p \in PermsOf(1..n)}
                \* member k replaced by a copy of its neighbour: the same members in other multiplicities ({A,B,A} -> {B,B,A})
                \cup (IF n >= 2 THEN {<<"dup", <<>>, k>> : k \in 1..n} ELSE {})
           [] OTHER -> {})
Other(ct) == IF ct = "XY" THEN "XYZM" ELSE "XY"
ForcePt(p, to) == IF p = <<>> THEN p ELSE IF to = "XY" THEN SubSeq(p,1,2) ELSE p \o <<ZeroTok, ZeroTok>>
Variant(g, d) ==
  LET n == Len(g.c) kind == d[1] p == d[2] k == d[3] IN
  CASE kind = "same" -> g
    [] kind = "bump" -> Bump(g)
    [] kind = "force" -> (IF g.t = "Point" THEN G(g.t, Other(g.ct), ForcePt(g.c, Other(g.ct))) ELSE IF n = 0 THEN G(g.t, Other(g.ct), <<>>) ELSE g)
    [] kind = "asmulti" -> (IF g.t = "Point" THEN G("MultiPoint", g.ct, <<g.c>>) ELSE g)
    [] kind = "drop" -> [g EXCEPT !.c = SubSeq(g.c,1,k-1) \o SubSeq(g.c,k+1,n)]
    [] kind = "empty" -> (IF g.t = "GeometryCollection" THEN [g EXCEPT !.c[k] = EmptyOf(g.c[k].t, g.ct)]
                          ELSE IF g.t \in {"MultiPoint","MultiLineString","MultiPolygon"} THEN [g EXCEPT !.c[k] = <<>>] ELSE g)
    [] kind = "emptypt" -> G(g.t, g.ct, <<>>)
    [] kind = "rev" -> [g EXCEPT !.c = RevSeq(g.c)]
    [] kind = "rot" -> [g EXCEPT !.c = RotRing(g.c, k)]
    [] kind = "rotrev" -> [g EXCEPT !.c = RevSeq(RotRing(g.c, k))]
    [] kind = "holes" -> [g EXCEPT !.c = <<g.c[1]>> \o Permute(SubSeq(g.c,2,n), p)]
    [] kind = "ringrot" -> [g EXCEPT !.c[k] = RotRing(g.c[k], 1)]
    [] kind = "ringsrev" -> [g EXCEPT !.c = [i \in 1..n |-> RevSeq(g.c[i])]]
    [] kind = "perm" -> [g EXCEPT !.c = Permute(g.c, p)]
    [] kind = "dup" -> [g EXCEPT !.c[k] = g.c[(k % n) + 1]]
\* what the specification expects for the pair (g, Variant(g,d)) is computed by Eq / EqIO themselves
=============================================================================
