SPECIFICATION Spec
CONSTANTS
  N = 2
  Kinds = {"p","s","t","q"}
CHECK_DEADLOCK FALSE
