---------------------------- MODULE AbstractGeom ----------------------------
(* Abstract geometry trees [t, ct, c] with opaque ordinate tokens (strings): *)
(*   Point c = <<tok..>> (<<>> empty); LineString <<pt..>>; Polygon          *)
(*   <<ring..>>; MultiPoint <<pt or <<>> ..>>; MultiLineString <<line..>>;   *)
(*   MultiPolygon <<poly..>>; GeometryCollection <<tree..>>                  *)
(* Typed structural equality (TLC cannot compare values of different shapes, *)
(* and the field order of records read from JSON is not canonical).          *)
EXTENDS Integers, Sequences, FiniteSets

SamePt(p,q) == Len(p) = Len(q) /\ \A i \in 1..Len(p) : p[i] = q[i]
SameLine(l,m) == Len(l) = Len(m) /\ \A i \in 1..Len(l) : SamePt(l[i], m[i])
SamePoly(a,b) == Len(a) = Len(b) /\ \A i \in 1..Len(a) : SameLine(a[i], b[i])
RECURSIVE SameTree(_,_)
SameTree(a,b) ==
  /\ a.t = b.t /\ a.ct = b.ct /\ Len(a.c) = Len(b.c)
  /\ CASE a.t = "Point" -> SamePt(a.c, b.c)
       [] a.t \in {"LineString","MultiPoint"} -> SameLine(a.c, b.c)
       [] a.t \in {"Polygon","MultiLineString"} -> SamePoly(a.c, b.c)
       [] a.t = "MultiPolygon" -> \A i \in 1..Len(a.c) : SamePoly(a.c[i], b.c[i])
       [] a.t = "GeometryCollection" -> \A i \in 1..Len(a.c) : SameTree(a.c[i], b.c[i])
       [] OTHER -> FALSE
\* every node of the tree reports the coordinate type ct
RECURSIVE UniformCt(_,_)
UniformCt(a,ct) == a.ct = ct /\ (a.t = "GeometryCollection" => \A i \in 1..Len(a.c) : UniformCt(a.c[i], ct))
RECURSIVE IsEmptyTree(_)
IsEmptyTree(a) == CASE a.t \in {"Point","LineString","Polygon"} -> Len(a.c) = 0
                    [] a.t \in {"MultiPoint","MultiLineString","MultiPolygon"} -> \A i \in 1..Len(a.c) : Len(a.c[i]) = 0
                    [] OTHER -> \A i \in 1..Len(a.c) : IsEmptyTree(a.c[i])
\* Validity that the specification can decide on opaque ordinate tokens (a sufficient condition): a token is non-finite
\* iff its exponent bits are all ones; a Point is valid iff empty or its X and Y are finite; a LineString iff empty or
\* all X, Y finite and two vertices differ in XY; collections of those; empty areal geometries.  Z and M never matter.
NonFinite(t) == SubSeq(t,1,3) \in {"7ff", "fff"}
ZTok(t) == t \in {"0000000000000000", "8000000000000000"}
SameOrd(a,b) == a = b \/ (ZTok(a) /\ ZTok(b))
PtFin(p) == ~NonFinite(p[1]) /\ ~NonFinite(p[2])
PtValid(p) == p = <<>> \/ PtFin(p)
LineValid(ln) == ln = <<>> \/ ((\A i \in 1..Len(ln) : PtFin(ln[i])) /\ \E i \in 1..Len(ln), j \in 1..Len(ln) : ~(SameOrd(ln[i][1], ln[j][1]) /\ SameOrd(ln[i][2], ln[j][2])))
RECURSIVE KnownValid(_)
KnownValid(g) == CASE g.t = "Point" -> PtValid(g.c)
                   [] g.t = "LineString" -> LineValid(g.c)
                   [] g.t = "MultiPoint" -> \A i \in 1..Len(g.c) : PtValid(g.c[i])
                   [] g.t = "MultiLineString" -> \A i \in 1..Len(g.c) : LineValid(g.c[i])
                   [] g.t = "Polygon" -> g.c = <<>>
                   [] g.t = "MultiPolygon" -> \A i \in 1..Len(g.c) : g.c[i] = <<>>
                   [] OTHER -> \A i \in 1..Len(g.c) : KnownValid(g.c[i])

=============================================================================
