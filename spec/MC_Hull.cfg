SPECIFICATION Spec
CONSTANTS
  Side = 3
  MaxPts = 5
INVARIANT ChainIsHull HullCovers
CHECK_DEADLOCK FALSE
