SPECIFICATION Spec
CONSTANT N = 3
INVARIANT Laws
CHECK_DEADLOCK FALSE
