SPECIFICATION Spec
CONSTANT N = 1
INVARIANTS TransposeLaw PredLaws DimLaw DistLaws AreaLaws BoundaryLaws ValidityLaws
CHECK_DEADLOCK FALSE
