------------------------------ MODULE Gen_Valid ------------------------------
(* (G) for C03: TLC enumerates a complete family of polygons with two holes  *)
(* - a 6x6 shell, an outer hole from a pool of shapes, an inner hole ranging *)
(* over every lattice triangle of the 5x5 interior lattice, in every ring    *)
(* rotation and both directions - and emits each as one case for the real    *)
(* Validate().  The invariance of SpecValid under the representation change  *)
(* is checked on the way (a property of the reference model).                *)
EXTENDS Validity, Json
CONSTANT Step      \* thin the triangle family: keep triangle number i iff i % Step = 0

Pts == {<<x,y>> : x \in 1..5, y \in 1..5}
Lt(p,q) == p[1] < q[1] \/ (p[1] = q[1] /\ p[2] < q[2])
Tris == {t \in Pts \X Pts \X Pts : Lt(t[1],t[2]) /\ Lt(t[2],t[3]) /\ Or3(t[1],t[2],t[3]) # 0}
Idx(t) == (t[1][1]*5 + t[1][2]) + 7*(t[2][1]*5 + t[2][2]) + 13*(t[3][1]*5 + t[3][2])
Shell == << <<0,0>>, <<6,0>>, <<6,6>>, <<0,6>>, <<0,0>> >>
Outer == { << <<1,1>>, <<5,1>>, <<5,5>>, <<1,5>>, <<1,1>> >>,
           << <<1,1>>, <<5,1>>, <<1,5>>, <<1,1>> >>,
           << <<1,3>>, <<3,1>>, <<5,3>>, <<3,5>>, <<1,3>> >>,
           << <<2,2>>, <<4,2>>, <<4,4>>, <<2,4>>, <<2,2>> >> }
Rot(t,k) == LET r == [i \in 1..3 |-> t[((i - 1 + k) % 3) + 1]] IN <<r[1],r[2],r[3],r[1]>>
RevR(r) == [i \in 1..Len(r) |-> r[Len(r) + 1 - i]]

PtStr(p) == ToString(p[1]) \o " " \o ToString(p[2])
RECURSIVE RingStr(_)
RingStr(r) == IF Len(r) = 1 THEN PtStr(r[1]) ELSE PtStr(r[1]) \o "," \o RingStr(Tail(r))
PolyWKT(rings) == LET f[i \in 1..Len(rings)] == (IF i = 1 THEN "" ELSE f[i-1] \o ",") \o "(" \o RingStr(rings[i]) \o ")"
                  IN "POLYGON(" \o f[Len(rings)] \o ")"

VARIABLES ph, st
Init == ph = "start" /\ st = <<>>
\* two levels so that the 48 (outer, rotation, direction, order) choices are spread over the workers
Pick == /\ ph = "start" /\ ph' = "mid"
        /\ \E o \in Outer, k \in 0..2, rev \in BOOLEAN, swap \in BOOLEAN, dup \in BOOLEAN : st' = <<o, k, rev, swap, dup>>
Emit == /\ ph = "mid" /\ ph' = "case"
        /\ \E t \in {x \in Tris : Idx(x) % Step = 0} :
             LET o == st[1] k == st[2] rev == st[3] swap == st[4]
                 inner0 == IF rev THEN RevR(Rot(t,k)) ELSE Rot(t,k)
                 \* the start vertex written twice (consecutive duplicates do not change the point set or the verdict)
                 inner == IF st[5] THEN <<inner0[1]>> \o inner0 ELSE inner0
                 rings == IF swap THEN <<Shell, inner, o>> ELSE <<Shell, o, inner>>
             IN /\ st' = <<o, k, rev, swap, st[5], t>>
                /\ Assert(PolyValid(rings) = PolyValid(<<Shell, o, Rot(t,0)>>), "SpecValid depends on the representation")
                /\ PrintT(ToJson([k |-> "CASE", kind |-> "geom", w |-> PolyWKT(rings)]))
Next == Pick \/ Emit
Spec == Init /\ [][Next]_<<ph,st>>
=============================================================================
