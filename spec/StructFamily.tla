---------------------------- MODULE StructFamily ----------------------------
(* Start states for MC_StructOps / Gen_StructOps: every type x coordinate    *)
(* type, distinct tokens per vertex: vertex i is (i, i*i, 1000+i, 2000+i) .    *)
EXTENDS StructOps
XT == <<"3ff0000000000000", "4000000000000000", "4008000000000000", "4010000000000000", "4014000000000000", "4018000000000000", "401c000000000000", "4020000000000000", "4022000000000000">>
YT == <<"3ff0000000000000", "4010000000000000", "4022000000000000", "4030000000000000", "4039000000000000", "4042000000000000", "4048800000000000", "4050000000000000", "4054400000000000">>
ZT == <<"408f480000000000", "408f500000000000", "408f580000000000", "408f600000000000", "408f680000000000", "408f700000000000", "408f780000000000", "408f800000000000", "408f880000000000">>
MT == <<"409f440000000000", "409f480000000000", "409f4c0000000000", "409f500000000000", "409f540000000000", "409f580000000000", "409f5c0000000000", "409f600000000000", "409f640000000000">>
V(i,ct) == <<XT[i],YT[i]>> \o (IF HasZ(ct) THEN <<ZT[i]>> ELSE <<>>) \o (IF HasM(ct) THEN <<MT[i]>> ELSE <<>>)
Ring(ct,b) == <<V(b,ct),V(b+1,ct),V(b+2,ct),V(b,ct)>>
G(t,ct,c) == [t |-> t, ct |-> ct, c |-> c]
Base(ct) == <<
  G("Point",ct,<<>>), G("Point",ct,V(1,ct)),
  G("LineString",ct,<<>>), G("LineString",ct,<<V(1,ct),V(2,ct),V(3,ct)>>),
  G("Polygon",ct,<<>>), G("Polygon",ct,<<Ring(ct,1),Ring(ct,5)>>),
  G("MultiPoint",ct,<<>>), G("MultiPoint",ct,<< <<>>, V(1,ct), V(4,ct) >>),
  G("MultiLineString",ct,<< <<>>, <<V(1,ct),V(2,ct)>> >>),
  G("MultiPolygon",ct,<< <<>>, <<Ring(ct,2)>> >>),
  G("GeometryCollection",ct,<<>>),
  G("GeometryCollection",ct,<<G("Point",ct,V(3,ct)), G("LineString",ct,<<>>)>>) >>
StartSeq == Base("XY") \o Base("XYZ") \o Base("XYM") \o Base("XYZM")
\* second operands for the constructors (other coordinate types)
Others(t) == LET f[k \in 0..4] == IF k = 0 THEN <<>> ELSE f[k-1] \o SelectSeq(Base(<<"XY","XYZ","XYM","XYZM">>[k]), LAMBDA x : t = "" \/ x.t = t) IN f[4]
=============================================================================
