------------------------------ MODULE Validity ------------------------------
(* OGC validity and simplicity by definition (DESIGN.md 4.2).                *)
(* Deliberately not the algorithm of the implementation: ring interaction by *)
(* exact common-point sets, interior connectedness by Euler's formula on the *)
(* ring arrangement, MultiPolygon members by their DE-9IM matrix.            *)
EXTENDS DE9IM

SegSeq(d) == [i \in 1..(Len(d)-1) |-> <<d[i], d[i+1]>>]

\* a closed curve that does not meet itself (consecutive duplicate vertices ignored)
RingSimple(ring) ==
  LET d == Dedup(ring) n == Len(d) - 1 sg == SegSeq(d) IN
  /\ n >= 3
  /\ \A i \in 1..n : \A j \in (i+1)..n :
       LET adj == (j = i+1) \/ (i = 1 /\ j = n) IN
       IF adj THEN ~Overlap1D(sg[i],sg[j]) ELSE ~Meets(sg[i],sg[j])
RingOK(ring) == Len(ring) >= 1 /\ ring[1] = ring[Len(ring)] /\ RingSimple(ring)

\* simple (possibly open) curve: IsSimple for a LineString
LineSimple(ls) ==
  LET d == Dedup(ls) n == Len(d) - 1 sg == SegSeq(d) closed == d[1] = d[Len(d)] IN
  IF n <= 0 THEN TRUE ELSE
  \A i \in 1..n : \A j \in (i+1)..n :
       LET adj == (j = i+1) \/ (closed /\ i = 1 /\ j = n /\ n >= 3) IN
       IF adj THEN ~Overlap1D(sg[i],sg[j]) ELSE ~Meets(sg[i],sg[j])
LineOK(ls) == Len(ls) = 0 \/ Cardinality(SeqSet(ls)) >= 2

RingCommon(r1,r2) == UNION {CommonPts(s,t) : s \in SegsOfLine(r1), t \in SegsOfLine(r2)}
RingOverlap(r1,r2) == \E s \in SegsOfLine(r1), t \in SegsOfLine(r2) : Overlap1D(s,t)
LocRing(ring,p) == LocPoly(<<ring>>,p)

RECURSIVE Reach(_,_,_)
Reach(adj, S, n) == LET S2 == S \cup {j \in 1..n : \E i \in S : adj[i][j]} IN IF S2 = S THEN S ELSE Reach(adj,S2,n)

PolyValid(rings) ==
  IF Len(rings) = 0 THEN TRUE ELSE
  LET n == Len(rings) IN
  /\ \A i \in 1..n : RingOK(rings[i])
  /\ \A i \in 1..n : \A j \in (i+1)..n : ~RingOverlap(rings[i],rings[j]) /\ Cardinality(RingCommon(rings[i],rings[j])) <= 1
  /\ \A i \in 2..n : \A v \in SeqSet(rings[i]) : LocRing(rings[1],H(v)) # "E"
  /\ \A i \in 2..n : \A j \in 2..n : i # j => \A v \in SeqSet(rings[i]) : LocRing(rings[j],H(v)) # "I"
  /\ LET VS == UNION {SeqSet(rings[i]) : i \in 1..n}
         allsegs == UNION {SegsOfLine(rings[i]) : i \in 1..n}
         \* edges of the ring arrangement: every segment is cut at the ring vertices lying strictly inside it
         EC == Cardinality(allsegs) + Cardinality({<<s,v>> \in allsegs \X VS : v # s[1] /\ v # s[2] /\ OnSegH(s,H(v))})
         adj == [i \in 1..n |-> [j \in 1..n |-> i = j \/ RingCommon(rings[i],rings[j]) # {}]]
         comps == {Reach(adj,{i},n) : i \in 1..n}
     IN \* Euler: faces = 1 + C - V + E = outer + holes + interior components
        EC - Cardinality(VS) + Cardinality(comps) - (n-1) = 1

AreaFlat(rings) == [pts |-> <<>>, lines |-> <<>>, areas |-> <<rings>>]
MPValid(polys) ==
  /\ \A i \in 1..Len(polys) : PolyValid(polys[i])
  /\ \A i \in 1..Len(polys) : \A j \in (i+1)..Len(polys) :
       (Len(polys[i]) = 0 \/ Len(polys[j]) = 0) \/
       LET m == Relate(AreaFlat(polys[i]), AreaFlat(polys[j])) IN
       Ch(m,1) = "F" /\ Ch(m,5) \in {"F","0"}

\* one leaf member (Point, LineString, Polygon, MultiPoint, MultiLineString or MultiPolygon)
LeafValid(f) == (\A i \in 1..Len(f.lines) : LineOK(f.lines[i])) /\ MPValid(f.areas)
\* a geometry is a sequence of leaf flats (a GeometryCollection is valid iff each member is)
PartsValid(parts) == \A i \in 1..Len(parts) : LeafValid(parts[i])

RECURSIVE CatSeqs(_)
CatSeqs(ss) == IF ss = <<>> THEN <<>> ELSE Head(ss) \o CatSeqs(Tail(ss))
Merge(parts) == [pts |-> CatSeqs([i \in 1..Len(parts) |-> parts[i].pts]),
                 lines |-> CatSeqs([i \in 1..Len(parts) |-> parts[i].lines]),
                 areas |-> CatSeqs([i \in 1..Len(parts) |-> parts[i].areas])]
\* members pairwise disjoint (domain guard of C02 for collections)
PartsDisjoint(parts) == \A i \in 1..Len(parts) : \A j \in (i+1)..Len(parts) : Disjoint2(parts[i], parts[j])
=============================================================================
