--------------------------- MODULE Trace_StructOps ---------------------------
(* Trace validation for C16.  Each line of the trace is one history: a start   *)
(* geometry and a sequence of operations applied by the real library, with the *)
(* result of each step read back through every accessor.  The specification    *)
(* carries its own abstract value (cur) along the history; a step is a         *)
(* mismatch unless the value read back is the one StructOps.tla allows.        *)
EXTENDS StructOps, Json, IOUtils

Trace == ndJsonDeserialize(IOEnv.VTRACE)
VARIABLES h, i, cur
vars == <<h, i, cur>>

Report(r) == IF r = "ok" THEN TRUE ELSE PrintT(ToJson([k |-> "V", l |-> h, i |-> i, r |-> r]))
Ev == Trace[h].steps[i]

SameList(a,b) == Len(a) = Len(b) /\ \A j \in 1..Len(a) : SameTree(a[j], b[j])

CheckStep(e, want) ==
  IF e.panic # "" THEN "panic:" \o e.act
  ELSE IF e.act \in {"forcecw","forceccw"} /\ ~SameUpToRings(e.got, want) THEN "result:" \o e.act
  ELSE IF e.act \notin {"forcecw","forceccw"} /\ ~SameTree(e.got, want) THEN "result:" \o e.act
  ELSE IF ~UniformCt(e.got, e.got.ct) THEN "member-coordinate-type"
  ELSE IF \E j \in 1..Len(e.cts) : e.cts[j] # e.got.ct THEN "accessor-coordinate-type"
  ELSE IF ~SameList(e.dump, Dump(e.got)) THEN "dump"
  ELSE IF e.coordsct # e.got.ct \/ ~SameLine(e.coords, AllVerts(e.got)) THEN "dump-coordinates"
  ELSE IF \E j \in 1..Len(e.xyops) : e.xyops[j] # "XY" THEN "xy-only-operation-returned-z-or-m"
  ELSE IF e.summary # Summary(e.got) \/ e.str # e.summary THEN "summary"
  ELSE IF e.nrings # NumRingsOf(e.got) \/ e.ntotal # NumTotal(e.got) THEN "counts"
  ELSE "ok"

Init == h \in 1..Len(Trace) /\ i = 1 /\ cur = Trace[h].start
Next == /\ i <= Len(Trace[h].steps) /\ i' = i + 1 /\ h' = h
        /\ LET want == Apply(Ev.act, Ev.arg, cur) IN
             /\ Report(CheckStep(Ev, want))
             \* orientation forcing is judged up to ring reversal: continue from what the library returned
             /\ cur' = IF Ev.act \in {"forcecw","forceccw"} /\ Ev.panic = "" THEN Ev.got ELSE want
Spec == Init /\ [][Next]_vars
RECURSIVE Total(_)
Total(k) == IF k = 0 THEN 0 ELSE Len(Trace[k].steps) + 1 + Total(k-1)
Done == PrintT(ToJson([k |-> "DONE", distinct |-> TLCGet("distinct"), want |-> Total(Len(Trace))]))
=============================================================================
