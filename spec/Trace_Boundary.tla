---------------------------- MODULE Trace_Boundary ----------------------------
(* Trace validation for C15: Boundary, PointOnSurface, Dimension, IsEmpty of  *)
(* the real library against the interior/boundary model of PointSet.tla.     *)
EXTENDS Validity, Json, IOUtils

Trace == ndJsonDeserialize(IOEnv.VTRACE)
S == 64
VARIABLES sh, l
vars == <<sh, l>>

RECURSIVE TreeDim(_)
TreeDim(t) == CASE t.t \in {"Point","MultiPoint"} -> 0
                [] t.t \in {"LineString","MultiLineString"} -> 1
                [] t.t \in {"Polygon","MultiPolygon"} -> 2
                [] OTHER -> LET f[i \in 0..Len(t.c)] == IF i = 0 THEN 0 ELSE Max2(f[i-1], TreeDim(t.c[i])) IN f[Len(t.c)]

Undirected(SS) == SS \cup {<<s[2],s[1]>> : s \in SS}

\* a collection's boundary is the collection of its members' NON-EMPTY boundaries: below a collection node of the
\* boundary no node is empty; and the boundary of a collection with n members has at most n members
RECURSIVE NoEmptyChild(_)
NoEmptyChild(t) == \A i \in 1..Len(t.c) : ~t.c[i].e /\ NoEmptyChild(t.c[i])
CheckBoundary(e) ==
  LET b == Merge(e.bnd)
      expPts == UNION {LineBoundary(e.g[i]) : i \in 1..Len(e.g)}
      expSegs == Undirected(UNION {AreaSegs(e.g[i]) : i \in 1..Len(e.g)})
  IN IF Len(b.areas) # 0 THEN "boundary-has-areas"
     ELSE IF PtSet(b) # expPts THEN "boundary-points"
     ELSE IF Undirected(LineSegs(b)) # expSegs THEN "boundary-lines"
     ELSE IF ~e.bbempty THEN "boundary-of-boundary-nonempty"
     \* (an empty collection is returned as its own boundary, empty members and all: pinned by the repository's tests)
     ELSE IF Len(e.g) > 0 /\ ~NoEmptyChild(e.btree) THEN "collection-boundary-has-empty-member"
     ELSE IF e.tree.t = "GeometryCollection" /\ (e.btree.t # "GeometryCollection" \/ Len(e.btree.c) > Len(e.tree.c)) THEN "collection-boundary-structure"
     ELSE "ok"

HighPart(g) == IF Len(g.areas) > 0 THEN [pts |-> <<>>, lines |-> <<>>, areas |-> g.areas]
               ELSE IF Len(g.lines) > 0 THEN [pts |-> <<>>, lines |-> g.lines, areas |-> <<>>]
               ELSE g

CheckPOS(e) ==
  LET g == Merge(e.g) IN
  IF IsEmptyG(g) THEN (IF e.pos.empty THEN "ok" ELSE "pos-nonempty-for-empty")
  ELSE IF e.pos.empty THEN "pos-empty"
  ELSE LET q == e.pos.q hp == HighPart(g)
           P(dx,dy) == Norm(<<q[1]+dx, q[2]+dy, 1024>>) IN
       IF Len(g.areas) > 0 /\ Len(e.g) = 1 THEN
            \* a single areal geometry: strictly interior, decided with the rounding box
            (IF e.pos.exact THEN (IF LocArea(hp,P(0,0)) = "I" THEN "ok" ELSE "pos-not-interior")
             ELSE IF \A dx \in {-1,1}, dy \in {-1,1} : LocArea(hp,P(dx,dy)) = "I" THEN "ok"
             ELSE IF \E dx \in {-1,0,1}, dy \in {-1,0,1} : LocArea(hp,P(dx,dy)) = "I" THEN "inc:pos-near-boundary"
             ELSE "pos-not-interior")
       ELSE IF e.pos.exact THEN (IF Loc(hp,P(0,0)) # "E" THEN "ok" ELSE "pos-not-on-highest-dimension-member")
       ELSE IF \E dx \in {-1,0,1}, dy \in {-1,0,1} : Loc(hp,P(dx,dy)) # "E" THEN "ok"
       ELSE "pos-not-on-highest-dimension-member"

\* A valid triangle k ulps wide (fam_sliver.go), alone, in a MultiPolygon or in a collection with a point and a
\* line: the point on surface in units (ulp of a, h / hu) relative to the corner (a, y0). No float lies strictly
\* inside, so what remains of the clause is: not empty, finite, and a point of the closed triangle.
CheckSliver(e) ==
  IF e.panic # "" THEN "panic"
  ELSE IF e.isempty THEN "isempty"
  ELSE IF e.dim # 2 THEN "dimension"
  ELSE IF e.empty THEN "pos-empty"
  ELSE IF ~e.fin THEN "pos-not-finite"
  ELSE IF ~e.exact THEN "inc:pos-not-representable-in-units"
  ELSE IF e.xu >= 0 /\ e.xu <= e.k /\ e.yu >= 0 /\ e.yu <= e.hu /\ e.xu * e.hu + e.yu * e.k <= e.k * e.hu THEN "ok"
  ELSE "pos-not-on-highest-dimension-member"

Check(e) ==
  IF "kind" \in DOMAIN e THEN CheckSliver(e) ELSE
  IF e.panic # "" THEN "panic"
  ELSE IF ~PartsValid(e.g) THEN "skip:invalid"
  ELSE IF e.isempty # (Len(e.g) = 0) THEN "isempty"
  ELSE IF e.dim # TreeDim(e.tree) THEN "dimension"
  ELSE LET b == CheckBoundary(e) IN IF b # "ok" THEN b ELSE CheckPOS(e)

Init == sh \in 1..S /\ l = sh
Next == /\ l <= Len(Trace) /\ l' = l + S /\ sh' = sh
        /\ LET r == Check(Trace[l]) IN IF r = "ok" THEN TRUE ELSE PrintT(ToJson([k |-> "V", l |-> l, r |-> r]))
Spec == Init /\ [][Next]_vars
Done == PrintT(ToJson([k |-> "DONE", distinct |-> TLCGet("distinct"), want |-> Len(Trace) + S]))
=============================================================================
