------------------------------ MODULE Gen_Shapes ------------------------------
(* (G) for the unary geometric families (C12 envelope, C13 hull, C14 measures, *)
(* C15 boundary / point on surface, C17 orientation): EVERY shape of           *)
(* ShapeUniverse, emitted as WKT for the real library.                         *)
EXTENDS ShapeUniverse
VARIABLES ph, i
Init == ph = "start" /\ i = 0
Emit == /\ ph = "start" /\ ph' = "case"
        /\ \E a \in 1..Len(Shapes) : i' = a /\ PrintT(ToJson([k |-> "CASE", wa |-> Shapes[a], N |-> N]))
Next == Emit
Spec == Init /\ [][Next]_<<ph, i>>
=============================================================================
