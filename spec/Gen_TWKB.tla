------------------------------ MODULE Gen_TWKB ------------------------------
(* (G) for C07: the encodings written by the specification's writer for the  *)
(* MC_TWKB family (both ring-closing conventions, which the library's own    *)
(* writer never mixes) become cases for the real UnmarshalTWKB.              *)
EXTENDS TWKBFamily, Json
CONSTANT Step
VARIABLES ph, st
Hash(x, oo) == Len(W(x, oo, TRUE)) + (IF oo.size THEN 1 ELSE 0) + (IF oo.bbox THEN 2 ELSE 0) + (IF oo.closed THEN 4 ELSE 0) + oo.prec + oo.d
GInit == ph = "start" /\ st = <<>>
Pick == /\ ph = "start" /\ ph' = "mid"
        /\ \E d \in {2,3}, s \in BOOLEAN, b \in BOOLEAN, c \in BOOLEAN, p \in {-1,0,2} : st' = <<d,s,b,c,p>>
Emit == /\ ph = "mid" /\ ph' = "case"
        /\ \E i \in 1..Len(FamilySeq), withIds \in BOOLEAN :
             LET x == IF st[1] = 2 THEN FamilySeq[i] ELSE Lift(FamilySeq[i])
                 oo == [size |-> st[2], bbox |-> st[3], closed |-> st[4], prec |-> st[5], d |-> st[1],
                        ids |-> IF withIds THEN [jj \in 1..NumMembers(x) |-> 100 - 70*jj] ELSE <<>>]
             IN /\ Hash(x, oo) % Step = 0
                /\ st' = <<i, oo>>
                /\ PrintT(ToJson([k |-> "CASE", kind |-> "dec", bytes |-> W(x, oo, TRUE)]))
GNext == Pick \/ Emit
GSpec == GInit /\ [][GNext]_<<ph,st>>
=============================================================================
