------------------------------- MODULE Gen_WKB -------------------------------
(* (G) for C04: every encoding the specification's writer produces for the    *)
(* family - including big-endian and mixed byte orders, which the library     *)
(* itself never writes - becomes a case for the real UnmarshalWKB.            *)
EXTENDS WKBFamily, Json
CONSTANT Step
VARIABLES ph, i, bos
Init == ph = "start" /\ i = 0 /\ bos = <<>>
Pick == ph = "start" /\ ph' = "mid" /\ i' \in 1..Len(FamilySeq) /\ bos' = <<>>
BitsOf(f) == LET s[k \in 0..Len(f)] == IF k = 0 THEN 0 ELSE 2*s[k-1] + (IF f[k] THEN 1 ELSE 0) IN s[Len(f)]
Emit == /\ ph = "mid" /\ ph' = "case" /\ i' = i
        /\ bos' \in [1..NumEl(FamilySeq[i]) -> BOOLEAN]
        /\ (BitsOf(bos') + i) % Step = 0
        /\ PrintT(ToJson([k |-> "CASE", kind |-> "dec", bytes |-> Enc(FamilySeq[i], bos')]))
Next == Pick \/ Emit
Spec == Init /\ [][Next]_<<ph, i, bos>>
=============================================================================
