----------------------------- MODULE Trace_Valid -----------------------------
(* Trace validation for C03: Validate(), the validating decoders and the     *)
(* simplicity predicates of the real library against Validity.tla.           *)
EXTENDS Validity, Json, IOUtils

Trace == ndJsonDeserialize(IOEnv.VTRACE)
S == 64
VARIABLES sh, l
vars == <<sh, l>>

Ends(ls) == IF IsOpenLine(ls) THEN {ls[1], ls[Len(ls)]} ELSE {}
\* MultiLineString: members simple, and two members meet only at points that are end points of both
MLSimple(lines) ==
  /\ \A i \in 1..Len(lines) : LineSimple(lines[i])
  /\ \A i \in 1..Len(lines) : \A j \in (i+1)..Len(lines) :
       \A s \in SegsOfLine(lines[i]), t \in SegsOfLine(lines[j]) :
          /\ ~Overlap1D(s,t)
          /\ \A x \in CommonPts(s,t) : x[3] = 1 /\ <<x[1],x[2]>> \in Ends(lines[i]) \cap Ends(lines[j])
LineClosed(ls) == Len(ls) > 0 /\ ls[1] = ls[Len(ls)]

Check(e) ==
  IF e.panic # "" THEN "panic"
  ELSE IF e.kind = "geom" THEN
     LET sv == PartsValid(e.parts) IN
     IF e.valid # sv THEN (IF sv THEN "validate-rejects-valid" ELSE "validate-accepts-invalid")
     ELSE IF \E i \in 1..Len(e.dec) : e.dec[i] # sv THEN "decoder-disagrees"
     ELSE "ok"
  ELSE IF e.kind = "line" THEN
     IF e.single THEN
        LET ls == e.lines[1] IN
        IF e.simple # LineSimple(ls) THEN "issimple"
        ELSE IF e.closed # LineClosed(ls) THEN "isclosed"
        ELSE IF e.ring # (LineClosed(ls) /\ LineSimple(ls)) THEN "isring"
        ELSE "ok"
     ELSE IF e.simple # MLSimple(e.lines) THEN "multi-issimple"
     ELSE "ok"
  ELSE IF e.kind = "nf" THEN
     IF ~e.base THEN "skip:base-invalid"
     ELSE IF e.valid # ~e.xy THEN "nonfinite"
     ELSE "ok"
  ELSE "unknown-kind"

Init == sh \in 1..S /\ l = sh
Next == /\ l <= Len(Trace) /\ l' = l + S /\ sh' = sh
        /\ LET r == Check(Trace[l]) IN IF r = "ok" THEN TRUE ELSE PrintT(ToJson([k |-> "V", l |-> l, r |-> r]))
Spec == Init /\ [][Next]_vars
Done == PrintT(ToJson([k |-> "DONE", distinct |-> TLCGet("distinct"), want |-> Len(Trace) + S]))
=============================================================================
