------------------------------- MODULE MC_WKB -------------------------------
(* (M) for C04: for every geometry of the family and every assignment of a   *)
(* byte order to each element, the reader inverts the writer exactly, ignores*)
(* trailing bytes, and rejects every strict prefix without reading past the  *)
(* end of the input.                                                         *)
EXTENDS WKBFamily
VARIABLES i, bos
Init == i \in 1..Len(FamilySeq) /\ bos \in [1..NumEl(FamilySeq[i]) -> BOOLEAN]
Next == UNCHANGED <<i, bos>>
Spec == Init /\ [][Next]_<<i, bos>>
RoundTrip == LET g == FamilySeq[i] b == Enc(g, bos) r == Dec(b, 1) IN
   /\ r.ok /\ r.pos = Len(b) + 1 /\ r.g = g
   /\ LET r2 == Dec(b \o <<7, 0, 255>>, 1) IN r2.ok /\ r2.pos = Len(b) + 1 /\ r2.g = g
Truncation == LET b == Enc(FamilySeq[i], bos) IN \A k \in 0..(Len(b)-1) : ~Dec(SubSeq(b,1,k), 1).ok
=============================================================================
