SPECIFICATION Spec
CONSTANT MaxOps = 2
CHECK_DEADLOCK FALSE
