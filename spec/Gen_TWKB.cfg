SPECIFICATION GSpec
CONSTANT Step = 4
CHECK_DEADLOCK FALSE
