---------------------------- MODULE Trace_GeoJSON ----------------------------
(* Trace validation for C06.                                                  *)
(*  kind "enc": MarshalJSON of a built geometry, re-parsed by encoding/json    *)
(*              into the abstract document (number tokens = bits), must have   *)
(*              the RFC shape and decode - by the specification's rule - to    *)
(*              Loss(g); the library's own UnmarshalGeoJSON must give Loss(g)  *)
(*              too; on the small-integer sub-domain the raw output is also    *)
(*              parsed by TLC's own JSON reader (field raw)                    *)
(*  kind "doc": a document from Gen_GeoJSON decoded by the real library        *)
(*  kind "feature": Feature / FeatureCollection round trip                     *)
EXTENDS GeoJSON, Json, IOUtils

Trace == ndJsonDeserialize(IOEnv.VTRACE)
S == 64
VARIABLES sh, l
vars == <<sh, l>>

\* raw document as read by TLC's JSON parser (integers) against the integer tree gi
RECURSIVE RawSame(_,_)
RawSame(raw,g) == /\ raw.type = g.t
                  /\ IF g.t = "GeometryCollection" THEN Len(raw.geometries) = Len(g.c) /\ \A i \in 1..Len(g.c) : RawSame(raw.geometries[i], g.c[i])
                     ELSE raw.coordinates = g.c

CheckEnc(e) ==
  IF e.err # "" THEN "marshal-error"
  ELSE IF ~e.stable THEN "result-overwritten-by-a-later-call"
  ELSE IF ~e.jsonvalid THEN "output-is-not-json"
  ELSE IF ~ShapeOK(e.doc) THEN "not-rfc7946-shape"
  ELSE LET want == Loss(e.g) r == Decode(e.doc) IN
  IF ~r.ok THEN "spec-decoder-rejects-output"
  ELSE IF ~SameTree(r.g, want) THEN "output-denotes-another-geometry"
  ELSE IF e.decerr # "" THEN "unmarshal-error"
  ELSE IF ~SameTree(e.dec, want) THEN "round-trip-differs"
  ELSE IF e.rawok /\ ~RawSame(e.raw, e.gi) THEN "raw-json-differs"
  ELSE "ok"

CheckDoc(e) ==
  IF e.odd THEN "skip:outcome-not-specified"
  ELSE LET r == Decode(e.doc) IN
  IF ~r.ok THEN (IF e.decerr # "" THEN "ok" ELSE "accepted-a-bad-position")
  ELSE IF e.decerr # "" THEN "document-rejected"
  ELSE IF ~SameTree(e.dec, r.g) THEN "document-decoded-differently"
  \* decoding into a concrete Go type succeeds iff the JSON type matches (the adapters validate)
  ELSE IF \E i \in 1..7 : e.into[i] /\ e.typenames[i] # e.doc.type THEN "concrete-type-accepts-another-type"
  \* (valid as far as the library's own Validate says, or known to be valid by the specification: AbstractGeom!KnownValid)
  ELSE IF (e.valid \/ KnownValid(r.g)) /\ \E i \in 1..7 : ~e.into[i] /\ e.typenames[i] = e.doc.type THEN "concrete-type-rejects-its-own-type"
  ELSE "ok"

Check(e) ==
  IF e.panic # "" THEN "panic"
  ELSE IF e.kind = "enc" THEN CheckEnc(e)
  ELSE IF e.kind = "doc" THEN CheckDoc(e)
  ELSE IF e.kind = "feature" THEN
       (IF ~e.valid THEN "skip:invalid-geometry-in-feature"
        ELSE IF e.err # "" THEN "feature-error:" \o e.err
        ELSE IF ~e.jsonvalid THEN "feature-output-is-not-json"
        ELSE IF e.got # e.want THEN "feature-round-trip"
        ELSE IF e.gotfc # e.wantfc THEN "feature-collection-round-trip" ELSE "ok")
  ELSE "unknown-kind"

Init == sh \in 1..S /\ l = sh
Next == /\ l <= Len(Trace) /\ l' = l + S /\ sh' = sh
        /\ LET r == Check(Trace[l]) IN IF r = "ok" THEN TRUE ELSE PrintT(ToJson([k |-> "V", l |-> l, r |-> r]))
Spec == Init /\ [][Next]_vars
Done == PrintT(ToJson([k |-> "DONE", distinct |-> TLCGet("distinct"), want |-> Len(Trace) + S]))
=============================================================================
