SPECIFICATION Spec
INVARIANT Duality
CHECK_DEADLOCK FALSE
