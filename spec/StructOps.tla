------------------------------ MODULE StructOps ------------------------------
(* C16: operations on abstract geometry trees whose vertices carry opaque     *)
(* ordinate tokens: what each operation does to the coordinate type and to    *)
(* each vertex's payload.  A vertex is its tuple of tokens (XY, then Z if the *)
(* type has Z, then M if it has M).                                           *)
EXTENDS AbstractGeom, TLC

ZeroTok == "0000000000000000"
CTs == {"XY","XYZ","XYM","XYZM"}
HasZ(ct) == ct \in {"XYZ","XYZM"}
HasM(ct) == ct \in {"XYM","XYZM"}
And(a,b) == IF HasZ(a) /\ HasZ(b) THEN (IF HasM(a) /\ HasM(b) THEN "XYZM" ELSE "XYZ")
            ELSE (IF HasM(a) /\ HasM(b) THEN "XYM" ELSE "XY")
ZOf(p,ct) == IF HasZ(ct) THEN p[3] ELSE ZeroTok
MOf(p,ct) == IF HasM(ct) THEN p[IF HasZ(ct) THEN 4 ELSE 3] ELSE ZeroTok
\* re-type one vertex: dropped dimensions disappear, added ones are zero, XY never changes
FV(p,from,to) == IF p = <<>> THEN p
                 ELSE <<p[1],p[2]>> \o (IF HasZ(to) THEN <<ZOf(p,from)>> ELSE <<>>) \o (IF HasM(to) THEN <<MOf(p,from)>> ELSE <<>>)
MapPts(l,F(_)) == [i \in 1..Len(l) |-> F(l[i])]
RevSeq(s) == [i \in 1..Len(s) |-> s[Len(s)+1-i]]

\* apply a vertex map / a vertex-sequence map to every vertex list of a tree
RECURSIVE MapTree(_,_,_,_)
\* FP: vertex -> vertex; FL: vertex list -> vertex list (e.g. reversal); nct: new coordinate type
MapTree(g, FP(_), FL(_), nct) ==
  LET line(l) == FL(MapPts(l, FP)) IN
  [t |-> g.t, ct |-> nct,
   c |-> CASE g.t = "Point" -> FP(g.c)
           [] g.t = "LineString" -> line(g.c)
           [] g.t = "MultiPoint" -> MapPts(g.c, FP)
           [] g.t \in {"Polygon","MultiLineString"} -> [i \in 1..Len(g.c) |-> line(g.c[i])]
           [] g.t = "MultiPolygon" -> [i \in 1..Len(g.c) |-> [k \in 1..Len(g.c[i]) |-> line(g.c[i][k])]]
           [] OTHER -> [i \in 1..Len(g.c) |-> MapTree(g.c[i], FP, FL, nct)]]
Id(x) == x
Force(g,to) == MapTree(g, LAMBDA p : FV(p, g.ct, to), Id, to)
Reverse(g) == MapTree(g, Id, RevSeq, g.ct)
SwapXY(g) == MapTree(g, LAMBDA p : IF p = <<>> THEN p ELSE <<p[2],p[1]>> \o SubSeq(p,3,Len(p)), Id, g.ct)
AsMulti(g) == CASE g.t = "Point" -> [t |-> "MultiPoint", ct |-> g.ct, c |-> <<g.c>>]
                [] g.t = "LineString" -> [t |-> "MultiLineString", ct |-> g.ct, c |-> <<g.c>>]
                [] g.t = "Polygon" -> [t |-> "MultiPolygon", ct |-> g.ct, c |-> IF g.c = <<>> THEN <<>> ELSE <<g.c>>]
                [] OTHER -> g
\* constructors reduce mixed inputs to the common subset of dimensions and force every member
CommonCt(ms) == LET f[i \in 1..Len(ms)] == IF i = 1 THEN ms[1].ct ELSE And(f[i-1], ms[i].ct) IN f[Len(ms)]
MkGC(ms) == IF ms = <<>> THEN [t |-> "GeometryCollection", ct |-> "XY", c |-> <<>>]
            ELSE LET ct == CommonCt(ms) IN [t |-> "GeometryCollection", ct |-> ct, c |-> [i \in 1..Len(ms) |-> Force(ms[i], ct)]]
MultiOf(t) == CASE t = "Point" -> "MultiPoint" [] t = "LineString" -> "MultiLineString" [] t = "Polygon" -> "MultiPolygon"
MkMulti(ms) == LET ct == CommonCt(ms) IN [t |-> MultiOf(ms[1].t), ct |-> ct, c |-> [i \in 1..Len(ms) |-> Force(ms[i], ct).c]]
\* NewPolygon from rings: the same reduction, applied to the rings
MkPoly(ms) == LET ct == CommonCt(ms) IN [t |-> "Polygon", ct |-> ct, c |-> [i \in 1..Len(ms) |-> Force(ms[i], ct).c]]
\* the leaves, in order
RECURSIVE Dump(_)
Dump(g) == CASE g.t \in {"Point","LineString","Polygon"} -> <<g>>
             [] g.t = "MultiPoint" -> [i \in 1..Len(g.c) |-> [t |-> "Point", ct |-> g.ct, c |-> g.c[i]]]
             [] g.t = "MultiLineString" -> [i \in 1..Len(g.c) |-> [t |-> "LineString", ct |-> g.ct, c |-> g.c[i]]]
             [] g.t = "MultiPolygon" -> [i \in 1..Len(g.c) |-> [t |-> "Polygon", ct |-> g.ct, c |-> g.c[i]]]
             [] OTHER -> LET f[i \in 0..Len(g.c)] == IF i = 0 THEN <<>> ELSE f[i-1] \o Dump(g.c[i]) IN f[Len(g.c)]
\* all vertices, in order
RECURSIVE CatAll(_)
CatAll(ss) == IF ss = <<>> THEN <<>> ELSE Head(ss) \o CatAll(Tail(ss))
RECURSIVE AllVerts(_)
AllVerts(g) == CASE g.t = "Point" -> (IF g.c = <<>> THEN <<>> ELSE <<g.c>>)
                 [] g.t = "LineString" -> g.c
                 [] g.t = "MultiPoint" -> SelectSeq(g.c, LAMBDA p : p # <<>>)
                 [] g.t \in {"Polygon","MultiLineString"} -> CatAll(g.c)
                 [] g.t = "MultiPolygon" -> CatAll([i \in 1..Len(g.c) |-> CatAll(g.c[i])])
                 [] OTHER -> CatAll([i \in 1..Len(g.c) |-> AllVerts(g.c[i])])
\* ---- counts and the one-line summary (String() = Summary())
RECURSIVE NumTotal(_)
NumTotal(g) == IF g.t # "GeometryCollection" THEN 0
               ELSE LET f[i \in 0..Len(g.c)] == IF i = 0 THEN 0 ELSE f[i-1] + 1 + NumTotal(g.c[i]) IN f[Len(g.c)]
NumRingsOf(g) == CASE g.t = "Polygon" -> Len(g.c)
                   [] g.t = "MultiPolygon" -> LET f[i \in 0..Len(g.c)] == IF i = 0 THEN 0 ELSE f[i-1] + Len(g.c[i]) IN f[Len(g.c)]
                   [] OTHER -> 0
Pl(n, one, many) == IF n = 1 THEN one ELSE many
Summary(g) ==
  LET np == Len(AllVerts(g)) hd == g.t \o "[" \o g.ct \o "] with " IN
  CASE g.t = "Point" -> hd \o (IF g.c = <<>> THEN "0 points" ELSE "1 point")
    [] g.t = "LineString" -> hd \o ToString(Len(g.c)) \o " points"
    [] g.t = "Polygon" -> hd \o ToString(Len(g.c)) \o Pl(Len(g.c), " ring", " rings") \o " consisting of " \o ToString(np) \o " total points"
    [] g.t = "MultiPoint" -> hd \o ToString(Len(g.c)) \o Pl(Len(g.c), " point", " points")   \* members, empty ones included
    [] g.t = "MultiLineString" -> hd \o ToString(Len(g.c)) \o Pl(Len(g.c), " linestring", " linestrings") \o " consisting of " \o ToString(np) \o " total points"
    [] g.t = "MultiPolygon" -> hd \o ToString(Len(g.c)) \o Pl(Len(g.c), " polygon", " polygons") \o " consisting of "
                               \o ToString(NumRingsOf(g)) \o Pl(NumRingsOf(g), " total ring", " total rings") \o " and " \o ToString(np) \o " total points"
    [] OTHER -> hd \o ToString(NumTotal(g)) \o Pl(NumTotal(g), " child geometry", " child geometries") \o " consisting of "
                \o ToString(np) \o Pl(np, " total point", " total points")
\* ring-wise equal or reversed (orientation forcing)
SameOrRev(a,b) == SameLine(a,b) \/ SameLine(a, RevSeq(b))
RECURSIVE SameUpToRings(_,_)
SameUpToRings(a,b) ==
  /\ a.t = b.t /\ a.ct = b.ct /\ Len(a.c) = Len(b.c)
  /\ CASE a.t = "Polygon" -> \A i \in 1..Len(a.c) : SameOrRev(a.c[i], b.c[i])
       [] a.t = "MultiPolygon" -> \A i \in 1..Len(a.c) : Len(a.c[i]) = Len(b.c[i]) /\ \A k \in 1..Len(a.c[i]) : SameOrRev(a.c[i][k], b.c[i][k])
       [] a.t = "GeometryCollection" -> \A i \in 1..Len(a.c) : SameUpToRings(a.c[i], b.c[i])
       [] OTHER -> SameTree(a,b)

\* a GeoJSON round trip is not structure preserving, but its effect is exactly GeoJSON!Loss (M dropped, Z kept iff
\* there is a position, empty Points of a MultiPoint not written): the codec models compose with the operation model
GJ == INSTANCE GeoJSON
\* the result of a structure-preserving action
Apply(act, arg, g) ==
  CASE act = "force" -> Force(g, arg.ct)
    [] act = "force2d" -> Force(g, "XY")
    [] act = "reverse" -> Reverse(g)
    [] act = "swapxy" -> SwapXY(g)
    [] act = "asmulti" -> AsMulti(g)
    [] act = "mkgc" -> MkGC(<<g, arg>>)
    [] act = "mkgc1" -> MkGC(<<g>>)
    [] act = "mkmulti" -> MkMulti(<<g, arg>>)
    [] act = "mkpoly" -> MkPoly(<<g, arg>>)
    [] act = "geojson" -> GJ!Loss(g)
    [] act \in {"snap0","densify","wkb","wkt","forcecw","forceccw","viactor","nop"} -> g
=============================================================================
