------------------------------- MODULE MC_WKT -------------------------------
(* (M) for C05: Parse(Respell(Print(g))) = g for every geometry of the family *)
(* and every token-level re-spelling (keyword case x numeral spelling x bare  *)
(* MultiPoint members); trailing tokens are rejected.                         *)
EXTENDS WKTFamily
VARIABLES i, kw, n, bare
vars == <<i, kw, n, bare>>
Init == i \in 1..Len(FamilySeq) /\ kw \in 1..3 /\ n \in 1..5 /\ bare \in BareModes
Next == UNCHANGED vars
Spec == Init /\ [][Next]_vars
RoundTrip == LET g == FamilySeq[i] ts == Respell(g, kw, n, bare) r == Parse(ts) IN r.ok /\ r.v = g
Trailing == LET ts == Respell(FamilySeq[i], kw, n, bare) IN
              ~Parse(ts \o <<")">>).ok /\ ~Parse(ts \o <<"1">>).ok /\ ~Parse(ts \o <<"POINT">>).ok /\ ~Parse(SubSeq(ts,1,Len(ts)-1)).ok
=============================================================================
