------------------------------ MODULE Trace_WKT ------------------------------
(* Trace validation for C05.                                                  *)
(*  kind "text":  AsText() of a built geometry, tokenised by the driver's own  *)
(*                tokeniser (numbers replaced by the bits they denote), must   *)
(*                be accepted by the specification's parser and denote the     *)
(*                geometry that was built; no exponent form; AppendWKT =       *)
(*                prefix + AsText; re-parse by the library gives the geometry; *)
(*                geometry from WKT = geometry from the same value's WKB       *)
(*  kind "zero":  the zero value of a Go type: text and AppendWKT              *)
(*  kind "parse": a re-spelt text from Gen_WKT parsed by the real UnmarshalWKT *)
EXTENDS WKT, AbstractGeom, Json, IOUtils

Trace == ndJsonDeserialize(IOEnv.VTRACE)
S == 64
VARIABLES sh, l
vars == <<sh, l>>
Same(a,b) == SameTree(a,b)
NormToks(ts) == [i \in 1..Len(ts) |-> IF IsNumTok(ts[i]) THEN "n:" \o NumBits(ts[i]) ELSE ts[i]]

\* the canonical printer only parenthesises: the text of the library must have exactly the canonical token stream
CheckText(e) ==
  LET r == Parse(e.toks) IN
  IF ~r.ok THEN "text-is-not-in-the-grammar"
  ELSE IF ~Same(r.v, e.g) THEN "text-denotes-another-geometry"
  ELSE IF NormToks(e.toks) # NormToks(PrintG(e.g)) THEN "text-is-not-canonical"
  ELSE IF ~e.noexp THEN "exponent-form"
  ELSE IF ~e.append THEN "appendwkt"
  ELSE IF e.reerr # "" THEN "reparse-error"
  ELSE IF ~Same(e.re, e.g) THEN "reparse-differs"
  ELSE IF ~Same(e.viawkb, e.g) THEN "wkt-vs-wkb"
  \* the default, validating reader must accept what the specification knows to be valid (AbstractGeom!KnownValid)
  ELSE IF KnownValid(e.g) /\ e.valerr # "" THEN "validating-reader-rejects-a-valid-geometry"
  ELSE "ok"

CheckParse(e) ==
  IF e.want = "error" THEN (IF e.reerr # "" THEN "ok" ELSE "trailing-tokens-accepted")
  ELSE IF e.reerr # "" THEN "respelt-text-rejected"
  ELSE IF ~Same(e.re, e.wantg) THEN "respelt-text-parsed-differently"
  ELSE "ok"

Check(e) ==
  IF e.panic # "" THEN "panic"
  ELSE IF e.kind = "text" THEN CheckText(e)
  ELSE IF e.kind = "zero" THEN (IF e.text # e.wanttext THEN "zero-value-text" ELSE IF ~e.append THEN "appendwkt" ELSE "ok")
  ELSE CheckParse(e)

Init == sh \in 1..S /\ l = sh
Next == /\ l <= Len(Trace) /\ l' = l + S /\ sh' = sh
        /\ LET r == Check(Trace[l]) IN IF r = "ok" THEN TRUE ELSE PrintT(ToJson([k |-> "V", l |-> l, r |-> r]))
Spec == Init /\ [][Next]_vars
Done == PrintT(ToJson([k |-> "DONE", distinct |-> TLCGet("distinct"), want |-> Len(Trace) + S]))
=============================================================================
