------------------------------- MODULE DE9IM -------------------------------
(* The DE-9IM matrix by definition: the entry (la,lb) is the largest        *)
(* dimension of a cell of the arrangement whose locations are (la,lb).      *)
(* Empty operands need no closed form: every location is "E".               *)
EXTENDS PointSet

Relate(ga,gb) ==
  LET arr == Arrangement(ga,gb)
      c0 == {<<Loc(ga,p), Loc(gb,p)>> : p \in arr.V}
      c1 == {LET m == Mid(e.u,e.v) IN <<Loc(ga,m), Loc(gb,m)>> : e \in arr.E}
      c2 == {<<"E","E">>} \cup UNION {
              LET m == Mid(e.u,e.v) IN
              {<<FaceLoc(ga,m,NL(e.s)), FaceLoc(gb,m,NL(e.s))>>, <<FaceLoc(ga,m,NR(e.s)), FaceLoc(gb,m,NR(e.s))>>} : e \in arr.E}
      Ent(la,lb) == IF <<la,lb>> \in c2 THEN "2" ELSE IF <<la,lb>> \in c1 THEN "1" ELSE IF <<la,lb>> \in c0 THEN "0" ELSE "F"
  IN Ent("I","I") \o Ent("I","B") \o Ent("I","E") \o Ent("B","I") \o Ent("B","B") \o Ent("B","E") \o Ent("E","I") \o Ent("E","B") \o Ent("E","E")

Ch(m,i) == SubSeq(m,i,i)
Explode(m) == [i \in 1..9 |-> SubSeq(m,i,i)]
Transpose(m) == Ch(m,1) \o Ch(m,4) \o Ch(m,7) \o Ch(m,2) \o Ch(m,5) \o Ch(m,8) \o Ch(m,3) \o Ch(m,6) \o Ch(m,9)

MatchCh(c,p) == p = "*" \/ (p = "T" /\ c # "F") \/ p = c
\* x, pat: exploded (tuples of nine one-character strings)
MatchesX(x,pat) == \A i \in 1..9 : MatchCh(x[i], pat[i])
Matches(m,pat) == MatchesX(Explode(m), Explode(pat))
ValidMatrix(m) == Len(m) = 9 /\ \A i \in 1..9 : Ch(m,i) \in {"F","0","1","2"}
ValidPattern(p) == Len(p) = 9 /\ \A i \in 1..9 : Ch(p,i) \in {"F","0","1","2","T","*"}

\* the documented patterns (constant-level, evaluated once)
PEquals == Explode("T*F**FFF*")
PDisjoint == Explode("FF*FF****")
PTouches == {Explode("FT*******"), Explode("F**T*****"), Explode("F***T****")}
PContains == Explode("T*****FF*")
PCovers == {Explode("T*****FF*"), Explode("*T****FF*"), Explode("***T**FF*"), Explode("****T*FF*")}
PWithin == Explode("T*F**F***")
PCoveredBy == {Explode("T*F**F***"), Explode("*TF**F***"), Explode("**FT*F***"), Explode("**F*TF***")}
PCrossLo == Explode("T*T******")
PCrossHi == Explode("T*****T**")
PCrossLL == Explode("0********")
POverLL == Explode("1*T***T**")
POverPA == Explode("T*T***T**")

\* the named predicates as documented; x = exploded matrix,
\* da, db = dimension of the non-empty part of each operand (-1 for an empty operand)
PredNames == <<"equals","disjoint","touches","contains","covers","within","coveredby","crosses","overlaps","intersects">>
PredX(name,x,da,db) ==
  CASE name = "equals" -> (da = -1 /\ db = -1) \/ MatchesX(x,PEquals)
    [] name = "disjoint" -> MatchesX(x,PDisjoint)
    [] name = "intersects" -> ~MatchesX(x,PDisjoint)
    [] name = "touches" -> \E p \in PTouches : MatchesX(x,p)
    [] name = "contains" -> MatchesX(x,PContains)
    [] name = "covers" -> \E p \in PCovers : MatchesX(x,p)
    [] name = "within" -> MatchesX(x,PWithin)
    [] name = "coveredby" -> \E p \in PCoveredBy : MatchesX(x,p)
    [] name = "crosses" -> (IF da < db THEN MatchesX(x,PCrossLo)
                            ELSE IF da > db THEN MatchesX(x,PCrossHi)
                            ELSE IF da = 1 THEN MatchesX(x,PCrossLL) ELSE FALSE)
    [] name = "overlaps" -> (IF da # db THEN FALSE
                             ELSE IF da = 1 THEN MatchesX(x,POverLL)
                             ELSE IF da \in {0,2} THEN MatchesX(x,POverPA) ELSE FALSE)
Pred(name,m,da,db) == PredX(name,Explode(m),da,db)

Disjoint2(ga,gb) == Matches(Relate(ga,gb),"FF*FF****")
SpecIntersects(ga,gb) == ~Disjoint2(ga,gb)
=============================================================================
