---------------------------- MODULE Trace_Envelope ----------------------------
(* Trace validation for C12.                                                  *)
(*  kind "algebra": every method of the real Envelope type on a pair / triple  *)
(*  kind "geom":    Envelope() of a geometry and of its re-representations,    *)
(*                  of its members, and of a Union                             *)
EXTENDS Envelope, Json, IOUtils

Trace == ndJsonDeserialize(IOEnv.VTRACE)
S == 64
VARIABLES sh, l
vars == <<sh, l>>

\* recorded geometry of AsGeometry / BoundingDiagonal: [t, pts]
GeomOK(kind, a, g) ==
  CASE Kind(a) = "empty" -> g.t = "GeometryCollection" /\ Len(g.pts) = 0
    [] Kind(a) = "point" -> g.t = "Point" /\ g.pts = << <<a[1],a[2]>> >>
    [] Kind(a) = "line" /\ kind = "asgeom" -> g.t = "LineString" /\ {g.pts[i] : i \in 1..Len(g.pts)} = {<<a[1],a[2]>>, <<a[3],a[4]>>} /\ Len(g.pts) = 2
    [] Kind(a) = "rectangle" /\ kind = "asgeom" ->
         g.t = "Polygon" /\ Len(g.pts) = 5 /\ g.pts[1] = g.pts[5] /\ {g.pts[i] : i \in 1..4} = Corners(a)
    [] OTHER -> g.t = "LineString" /\ g.pts = << <<a[1],a[2]>>, <<a[3],a[4]>> >>      \* the diagonal

CheckAlgebra(e) ==
  LET a == e.a b == e.b c == e.c IN
  IF e.ra # a \/ e.rb # b THEN "construction"
  ELSE IF e.join # Join(a,b) THEN "join"
  ELSE IF e.join3 # Join(Join(a,b),c) THEN "join-of-three"
  ELSE IF ~IsEmptyE(b) /\ e.expandxy # ExpandXY(a, <<b[1],b[4]>>) THEN "expand-to-include-xy"
  \* TransformXY maps the two extreme corners and takes their box (the empty envelope stays empty); f(x,y) = (7-y, 2x+1)
  ELSE IF ~IsEmptyE(b) /\ e.txy # (IF IsEmptyE(a) THEN <<>> ELSE OfPoints({<<7 - a[2], 2*a[1] + 1>>, <<7 - a[4], 2*a[3] + 1>>})) THEN "transform-xy"
  ELSE IF ~IsEmptyE(b) /\ e.contains # ContainsP(a, <<b[1],b[4]>>) THEN "contains"
  ELSE IF e.intersects # Intersects(a,b) \/ e.intersectsrev # Intersects(b,a) THEN "intersects"
  ELSE IF e.covers # Covers(a,b) \/ e.coversrev # Covers(b,a) THEN "covers"
  ELSE IF e.distok # (~IsEmptyE(a) /\ ~IsEmptyE(b)) THEN "distance-defined"
  ELSE IF e.distok /\ e.dist2 # Dist2(a,b) THEN "distance"
  ELSE IF e.kind2 # Kind(a) THEN "classification"
  ELSE IF e.width # Width(a) \/ e.height # Height(a) \/ e.area # Area(a) THEN "width-height-area"
  ELSE IF ~IsEmptyE(a) /\ e.center2 # <<a[1]+a[3], a[2]+a[4]>> THEN "center"
  ELSE IF IsEmptyE(a) # e.centerempty THEN "center-of-empty"
  ELSE IF e.minmax # a THEN "min-max"
  ELSE IF (e.boxok # (~IsEmptyE(a))) \/ (e.boxok /\ e.box # a) THEN "as-box"
  ELSE IF ~GeomOK("asgeom", a, e.asgeom) THEN "as-geometry"
  ELSE IF ~GeomOK("diag", a, e.diag) THEN "bounding-diagonal"
  ELSE "ok"

CheckGeom(e) ==
  LET want == OfPoints({e.pts[i] : i \in 1..Len(e.pts)}) IN
  IF e.env # want THEN "envelope-is-not-the-tightest-box"
  ELSE IF e.isempty # (want = <<>>) THEN "envelope-emptiness"
  ELSE IF \E i \in 1..Len(e.variants) : e.variants[i] # want THEN "envelope-changes-with-representation"
  ELSE IF e.members # <<>> /\ (LET j[i \in 0..Len(e.members)] == IF i = 0 THEN <<>> ELSE Join(j[i-1], e.members[i]) IN j[Len(e.members)]) # want THEN "collection-is-not-the-join-of-members"
  ELSE IF e.unionok /\ e.unionenv # Join(want, e.otherenv) THEN "union-is-not-the-join"
  ELSE "ok"

\* The XY vector helpers (Sub, Add, Scale, Cross, Dot, Midpoint, Less, Length, Unit) on integer vectors.
RECURSIVE IsqrtB(_,_,_)
IsqrtB(n,lo,hi) == IF lo >= hi THEN lo ELSE LET m == (lo + hi + 1) \div 2 IN IF m*m <= n THEN IsqrtB(n,m,hi) ELSE IsqrtB(n,lo,m-1)
CheckXY(e) ==
  LET u == e.u v == e.v n2 == u[1]*u[1] + u[2]*u[2] IN
  IF e.sub # <<u[1]-v[1], u[2]-v[2]>> THEN "xy-sub"
  ELSE IF e.add # <<u[1]+v[1], u[2]+v[2]>> THEN "xy-add"
  ELSE IF e.scale # <<e.k*u[1], e.k*u[2]>> THEN "xy-scale"
  ELSE IF e.cross # u[1]*v[2] - u[2]*v[1] THEN "xy-cross"
  ELSE IF e.dot # u[1]*v[1] + u[2]*v[2] THEN "xy-dot"
  ELSE IF e.mid2 # <<u[1]+v[1], u[2]+v[2]>> THEN "xy-midpoint"
  ELSE IF e.ival # <<IF u[1] <= v[1] THEN u[1] ELSE v[1], IF u[1] <= v[1] THEN v[1] ELSE u[1], 1, 0>> THEN "interval"
  ELSE IF e.less # (u[1] < v[1] \/ (u[1] = v[1] /\ u[2] < v[2])) THEN "xy-less"
  ELSE IF e.lessrev # (v[1] < u[1] \/ (u[1] = v[1] /\ v[2] < u[2])) THEN "xy-less"
  \* floor(32 * |u|) is the integer square root of 1024 |u|^2 (|u|^2 <= 4624; one unit of slack for the rounding of sqrt)
  ELSE IF e.len32 # IsqrtB(n2 * 1024, 0, 46340) /\ e.len32 + 1 # IsqrtB(n2 * 1024, 0, 46340) THEN "xy-length"
  \* Unit() scaled back by the length is u again (not defined for the zero vector)
  ELSE IF n2 > 0 /\ (~e.unitfin \/ e.unit # <<1024*u[1], 1024*u[2]>>) THEN "xy-unit"
  ELSE "ok"

Check(e) == IF e.panic # "" THEN "panic" ELSE IF e.kind = "xy" THEN CheckXY(e) ELSE IF e.kind = "algebra" THEN CheckAlgebra(e) ELSE CheckGeom(e)

Init == sh \in 1..S /\ l = sh
Next == /\ l <= Len(Trace) /\ l' = l + S /\ sh' = sh
        /\ LET r == Check(Trace[l]) IN IF r = "ok" THEN TRUE ELSE PrintT(ToJson([k |-> "V", l |-> l, r |-> r]))
Spec == Init /\ [][Next]_vars
Done == PrintT(ToJson([k |-> "DONE", distinct |-> TLCGet("distinct"), want |-> Len(Trace) + S]))
=============================================================================
