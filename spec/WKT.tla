-------------------------------- MODULE WKT --------------------------------
(* C05: Well Known Text at the token level.                                  *)
(*   PrintG(g)      canonical token stream of the OGC grammar (Z / M / ZM     *)
(*                 tags, EMPTY at every level, parenthesised MultiPoint      *)
(*                 members)                                                  *)
(*   Parse(toks)   recursive-descent parser; accepts the documented          *)
(*                 re-spellings: any case of the geometry-type keyword, bare *)
(*                 MultiPoint members, alternative numerals; rejects trailing*)
(*                 tokens                                                    *)
(* Numbers are opaque: a number token is either "n:<16 hex digits>" (the bits*)
(* obtained by the driver from the text the library printed) or one of the   *)
(* numeral spellings of NumTable.  Geometries are [t, ct, c] as in WKB.tla.  *)
EXTENDS Integers, Sequences, FiniteSets, TLC

TypeNames == <<"Point","LineString","Polygon","MultiPoint","MultiLineString","MultiPolygon","GeometryCollection">>
KwUpper == <<"POINT","LINESTRING","POLYGON","MULTIPOINT","MULTILINESTRING","MULTIPOLYGON","GEOMETRYCOLLECTION">>
KwLower == <<"point","linestring","polygon","multipoint","multilinestring","multipolygon","geometrycollection">>
KwMixed == <<"Point","LineString","pOLYGON","MultiPoint","multiLINEstring","MultiPolygon","GeometryCollectioN">>
KwIndex(tok) == IF \E i \in 1..7 : tok \in {KwUpper[i], KwLower[i], KwMixed[i]}
                THEN CHOOSE i \in 1..7 : tok \in {KwUpper[i], KwLower[i], KwMixed[i]} ELSE 0
DimOf(ct) == IF ct = "XY" THEN 2 ELSE IF ct = "XYZM" THEN 4 ELSE 3
Tag(ct) == IF ct = "XYZ" THEN <<"Z">> ELSE IF ct = "XYM" THEN <<"M">> ELSE IF ct = "XYZM" THEN <<"ZM">> ELSE <<>>

\* numerals: bits of the non-negative value and its spellings (the first one is what a canonical writer prints)
NumTable == <<
  [bits |-> "3ff0000000000000", sp |-> <<"1", "1.0", "1e0", "10E-1", "0.1e+1">>],
  [bits |-> "4000000000000000", sp |-> <<"2", "2.00", "2E0", "20e-1", "0.02E2">>],
  [bits |-> "3fe0000000000000", sp |-> <<"0.5", "0.50", "5e-1", "50E-2", ".5">>],
  [bits |-> "0000000000000000", sp |-> <<"0", "0.0", "0e0", "0E5", "00">>],
  [bits |-> "4059000000000000", sp |-> <<"100", "100.0", "1e2", "1E+2", "0.1e3">>] >>
IsNumTok(tok) == (Len(tok) = 18 /\ SubSeq(tok,1,2) = "n:") \/ \E i \in 1..Len(NumTable) : \E j \in 1..Len(NumTable[i].sp) : NumTable[i].sp[j] = tok
NumBits(tok) == IF Len(tok) = 18 /\ SubSeq(tok,1,2) = "n:" THEN SubSeq(tok,3,18)
                ELSE NumTable[CHOOSE i \in 1..Len(NumTable) : \E j \in 1..Len(NumTable[i].sp) : NumTable[i].sp[j] = tok].bits
\* negate the bits of a token (flip the sign bit: first hex digit +- 8)
HexDigits == <<"0","1","2","3","4","5","6","7","8","9","a","b","c","d","e","f">>
HexVal(ch) == CHOOSE i \in 0..15 : HexDigits[i+1] = ch
NegBits(b) == HexDigits[((HexVal(SubSeq(b,1,1)) + 8) % 16) + 1] \o SubSeq(b,2,16)

\* ---------------------------------------------------------------- parser
Fail(pos) == [ok |-> FALSE, v |-> <<>>, pos |-> pos]
Tok(ts,pos) == IF pos <= Len(ts) THEN ts[pos] ELSE "<eof>"
\* one signed number -> [ok, v (bits), pos]
Num(ts,pos) == IF Tok(ts,pos) = "-" THEN (IF IsNumTok(Tok(ts,pos+1)) THEN [ok |-> TRUE, v |-> NegBits(NumBits(ts[pos+1])), pos |-> pos+2] ELSE Fail(pos))
               ELSE IF IsNumTok(Tok(ts,pos)) THEN [ok |-> TRUE, v |-> NumBits(ts[pos]), pos |-> pos+1] ELSE Fail(pos)
RECURSIVE Nums(_,_,_)
Nums(ts,pos,n) == IF n = 0 THEN [ok |-> TRUE, v |-> <<>>, pos |-> pos]
                  ELSE LET a == Num(ts,pos) IN IF ~a.ok THEN Fail(pos)
                       ELSE LET r == Nums(ts,a.pos,n-1) IN [ok |-> r.ok, v |-> <<a.v>> \o r.v, pos |-> r.pos]
\* comma separated list of items parsed by Item(ts,pos) up to ")" -> [ok, v, pos after ")"]
RECURSIVE PtList(_,_,_)
PtList(ts,pos,d) == LET a == Nums(ts,pos,d) IN IF ~a.ok THEN Fail(pos)
     ELSE IF Tok(ts,a.pos) = ")" THEN [ok |-> TRUE, v |-> <<a.v>>, pos |-> a.pos+1]
     ELSE IF Tok(ts,a.pos) = "," THEN (LET r == PtList(ts,a.pos+1,d) IN [ok |-> r.ok, v |-> <<a.v>> \o r.v, pos |-> r.pos])
     ELSE Fail(pos)
\* "( pt, pt, .. )" or EMPTY
LineText(ts,pos,d) == IF Tok(ts,pos) = "EMPTY" THEN [ok |-> TRUE, v |-> <<>>, pos |-> pos+1]
                      ELSE IF Tok(ts,pos) = "(" THEN PtList(ts,pos+1,d) ELSE Fail(pos)
RECURSIVE LineList(_,_,_)
LineList(ts,pos,d) == LET a == LineText(ts,pos,d) IN IF ~a.ok THEN Fail(pos)
     ELSE IF Tok(ts,a.pos) = ")" THEN [ok |-> TRUE, v |-> <<a.v>>, pos |-> a.pos+1]
     ELSE IF Tok(ts,a.pos) = "," THEN (LET r == LineList(ts,a.pos+1,d) IN [ok |-> r.ok, v |-> <<a.v>> \o r.v, pos |-> r.pos])
     ELSE Fail(pos)
PolyText(ts,pos,d) == IF Tok(ts,pos) = "EMPTY" THEN [ok |-> TRUE, v |-> <<>>, pos |-> pos+1]
                      ELSE IF Tok(ts,pos) = "(" THEN LineList(ts,pos+1,d) ELSE Fail(pos)
RECURSIVE PolyList(_,_,_)
PolyList(ts,pos,d) == LET a == PolyText(ts,pos,d) IN IF ~a.ok THEN Fail(pos)
     ELSE IF Tok(ts,a.pos) = ")" THEN [ok |-> TRUE, v |-> <<a.v>>, pos |-> a.pos+1]
     ELSE IF Tok(ts,a.pos) = "," THEN (LET r == PolyList(ts,a.pos+1,d) IN [ok |-> r.ok, v |-> <<a.v>> \o r.v, pos |-> r.pos])
     ELSE Fail(pos)
\* MultiPoint member: EMPTY, "( nums )" or bare nums
MPMember(ts,pos,d) == IF Tok(ts,pos) = "EMPTY" THEN [ok |-> TRUE, v |-> <<>>, pos |-> pos+1]
     ELSE IF Tok(ts,pos) = "(" THEN (LET a == Nums(ts,pos+1,d) IN IF a.ok /\ Tok(ts,a.pos) = ")" THEN [ok |-> TRUE, v |-> a.v, pos |-> a.pos+1] ELSE Fail(pos))
     ELSE Nums(ts,pos,d)
RECURSIVE MPList(_,_,_)
MPList(ts,pos,d) == LET a == MPMember(ts,pos,d) IN IF ~a.ok THEN Fail(pos)
     ELSE IF Tok(ts,a.pos) = ")" THEN [ok |-> TRUE, v |-> <<a.v>>, pos |-> a.pos+1]
     ELSE IF Tok(ts,a.pos) = "," THEN (LET r == MPList(ts,a.pos+1,d) IN [ok |-> r.ok, v |-> <<a.v>> \o r.v, pos |-> r.pos])
     ELSE Fail(pos)

RECURSIVE Geom(_,_)
RECURSIVE GeomList(_,_,_)
GeomList(ts,pos,ct) == LET a == Geom(ts,pos) IN IF ~a.ok \/ a.v.ct # ct THEN Fail(pos)
     ELSE IF Tok(ts,a.pos) = ")" THEN [ok |-> TRUE, v |-> <<a.v>>, pos |-> a.pos+1]
     ELSE IF Tok(ts,a.pos) = "," THEN (LET r == GeomList(ts,a.pos+1,ct) IN [ok |-> r.ok, v |-> <<a.v>> \o r.v, pos |-> r.pos])
     ELSE Fail(pos)
Geom(ts,pos) ==
  LET k == KwIndex(Tok(ts,pos)) IN IF k = 0 THEN Fail(pos) ELSE
  LET tg == Tok(ts,pos+1)
      ct == IF tg = "Z" THEN "XYZ" ELSE IF tg = "M" THEN "XYM" ELSE IF tg = "ZM" THEN "XYZM" ELSE "XY"
      p == IF ct = "XY" THEN pos+1 ELSE pos+2
      d == DimOf(ct)
      Ret(r) == IF r.ok THEN [ok |-> TRUE, v |-> [t |-> TypeNames[k], ct |-> ct, c |-> r.v], pos |-> r.pos] ELSE Fail(pos)
      Body(list) == IF Tok(ts,p) = "EMPTY" THEN [ok |-> TRUE, v |-> <<>>, pos |-> p+1] ELSE IF Tok(ts,p) = "(" THEN list ELSE Fail(pos)
  IN CASE k = 1 -> Ret(IF Tok(ts,p) = "EMPTY" THEN [ok |-> TRUE, v |-> <<>>, pos |-> p+1]
                       ELSE IF Tok(ts,p) = "(" THEN (LET a == Nums(ts,p+1,d) IN IF a.ok /\ Tok(ts,a.pos) = ")" THEN [ok |-> TRUE, v |-> a.v, pos |-> a.pos+1] ELSE Fail(pos))
                       ELSE Fail(pos))
       [] k = 2 -> Ret(LineText(ts,p,d))
       [] k = 3 -> Ret(PolyText(ts,p,d))
       [] k = 4 -> Ret(Body(MPList(ts,p+1,d)))
       [] k = 5 -> Ret(Body(LineList(ts,p+1,d)))
       [] k = 6 -> Ret(Body(PolyList(ts,p+1,d)))
       [] k = 7 -> Ret(Body(GeomList(ts,p+1,ct)))
\* a whole text: one geometry and nothing after it
Parse(ts) == LET r == Geom(ts,1) IN IF r.ok /\ r.pos = Len(ts) + 1 THEN r ELSE Fail(1)

\* ---------------------------------------------------------------- printer
RECURSIVE FlatT(_)
FlatT(ss) == IF ss = <<>> THEN <<>> ELSE Head(ss) \o FlatT(Tail(ss))
\* comma separated: items are token sequences
RECURSIVE Commas(_)
Commas(items) == IF Len(items) = 1 THEN items[1] ELSE items[1] \o <<",">> \o Commas(Tail(items))
Paren(toks) == <<"(">> \o toks \o <<")">>
\* NumTok(bits): tokens of a (possibly negative) number
CanonSp(b) == IF \E i \in 1..Len(NumTable) : NumTable[i].bits = b THEN NumTable[CHOOSE i \in 1..Len(NumTable) : NumTable[i].bits = b].sp[1] ELSE "n:" \o b
IsNegBits(b) == HexVal(SubSeq(b,1,1)) >= 8
NumToks(b) == IF IsNegBits(b) THEN <<"-", CanonSp(NegBits(b))>> ELSE <<CanonSp(b)>>
PtToks(p) == FlatT([i \in 1..Len(p) |-> NumToks(p[i])])
LineToks(l) == IF l = <<>> THEN <<"EMPTY">> ELSE Paren(Commas([i \in 1..Len(l) |-> PtToks(l[i])]))
PolyToks(pg) == IF pg = <<>> THEN <<"EMPTY">> ELSE Paren(Commas([i \in 1..Len(pg) |-> LineToks(pg[i])]))
RECURSIVE PrintG(_)
PrintG(g) ==
  LET k == CHOOSE i \in 1..7 : TypeNames[i] = g.t IN
  <<KwUpper[k]>> \o Tag(g.ct) \o
  (IF g.c = <<>> THEN <<"EMPTY">>
   ELSE CASE k = 1 -> Paren(PtToks(g.c))
          [] k = 2 -> LineToks(g.c)
          [] k = 3 -> PolyToks(g.c)
          [] k = 4 -> Paren(Commas([i \in 1..Len(g.c) |-> IF g.c[i] = <<>> THEN <<"EMPTY">> ELSE Paren(PtToks(g.c[i]))]))
          [] k = 5 -> Paren(Commas([i \in 1..Len(g.c) |-> LineToks(g.c[i])]))
          [] k = 6 -> Paren(Commas([i \in 1..Len(g.c) |-> PolyToks(g.c[i])]))
          [] k = 7 -> Paren(Commas([i \in 1..Len(g.c) |-> PrintG(g.c[i])])))
=============================================================================
