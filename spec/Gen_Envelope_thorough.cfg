SPECIFICATION Spec
CONSTANTS
  N = 2
  Triples = TRUE
CHECK_DEADLOCK FALSE
