SPECIFICATION Spec
CONSTANT N = 2
INVARIANT Laws
CHECK_DEADLOCK FALSE
