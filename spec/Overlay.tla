------------------------------ MODULE Overlay ------------------------------
(* C01: the result of a set operation, as recorded from the real library     *)
(* (ordinates scaled by K and rounded), is judged against the set-theoretic  *)
(* definition on the exact arrangement of the operands (DESIGN.md 4.2-4.3):  *)
(*   face   in R  iff  op(face in A, face in B)                              *)
(*   edge   in R  iff  op(...) at its midpoint, or an adjacent face is in R  *)
(*   vertex in R  iff  op(...) at the vertex, or an incident edge/face in R  *)
(* (closure semantics), plus the canonical shape of the result.              *)
EXTENDS PointSet

K == 65536        \* scale of logged result ordinates
T == 2            \* lifting tolerance in scaled units

\* ---- lifting a scaled point q = <<xs,ys>> to an arrangement vertex
Near(q,p) == Abs(q[1]*p[3] - p[1]*K) <= T*p[3] /\ Abs(q[2]*p[3] - p[2]*K) <= T*p[3]
LiftSet(V,q) == {p \in V : Near(q,p)}

\* p,q,r on line(s): r between p and q (inclusive)
Betw(s,p,q,r) == LET a == Param(s,p) b == Param(s,q) c == Param(s,r) IN
    \/ (a*r[3] <= c*p[3] /\ c*q[3] <= b*r[3])
    \/ (b*r[3] <= c*q[3] /\ c*p[3] <= a*r[3])

\* lifted ring segment: [u, v, s], s an input segment whose line carries u and v (<<>> if none)
SegRec(S,u,v) == LET C == {s \in S : OnLineH(s,u) /\ OnLineH(s,v)} IN
                 IF C = {} THEN [u |-> u, v |-> v, s |-> <<>>] ELSE [u |-> u, v |-> v, s |-> CHOOSE s \in C : TRUE]
RSegsOfLine(S,ls) == {SegRec(S, ls[i], ls[i+1]) : i \in {j \in 1..(Len(ls)-1) : ls[j] # ls[j+1]}}
OnRSeg(r,p) == OnLineH(r.s,p) /\ Betw(r.s,r.u,r.v,p)

YLe(p,q) == p[2]*q[3] <= q[2]*p[3]
YLt(p,q) == p[2]*q[3] < q[2]*p[3]
\* half-open crossing of the leftward ray from p with the lifted segment r
RCrosses(r,p) ==
  LET lo == IF YLe(r.u,r.v) THEN r.u ELSE r.v
      hi == IF YLe(r.u,r.v) THEN r.v ELSE r.u
      agree == Param(r.s,lo)*hi[3] < Param(r.s,hi)*lo[3]
      o == OrientH(r.s[1], r.s[2], p)
      oo == IF agree THEN o ELSE -o
  IN YLe(lo,p) /\ YLt(p,hi) /\ oo = -1
\* ray from m in direction n crossing the lifted segment r strictly forward
RRayCross(m,n,r) ==
  LET sa == Sgn(Cross(n[1],n[2], r.u[1]*m[3]-m[1]*r.u[3], r.u[2]*m[3]-m[2]*r.u[3]))
      sb == Sgn(Cross(n[1],n[2], r.v[1]*m[3]-m[1]*r.v[3], r.v[2]*m[3]-m[2]*r.v[3]))
  IN IF (sa < 0) = (sb < 0) THEN FALSE
     ELSE LET a == r.s[1] b == r.s[2]
              num == Cross(a[1]*m[3]-m[1], a[2]*m[3]-m[2], b[1]-a[1], b[2]-a[2])
              den == Cross(n[1],n[2], b[1]-a[1], b[2]-a[2])
          IN Sgn(num)*Sgn(den) > 0

\* ---- result linestring pieces stay approximate: [q1,q2,s] with carrying lattice segment s
L1(s) == Abs(s[2][1]-s[1][1]) + Abs(s[2][2]-s[1][2])
NearLineS(s,q) == Abs(Cross(s[2][1]-s[1][1], s[2][2]-s[1][2], q[1]-s[1][1]*K, q[2]-s[1][2]*K)) <= T*L1(s)
TS(s,q) == (q[1]-s[1][1]*K)*(s[2][1]-s[1][1]) + (q[2]-s[1][2]*K)*(s[2][2]-s[1][2])
LRec(S,q1,q2) == LET C == {s \in S : NearLineS(s,q1) /\ NearLineS(s,q2)} IN
                 IF C = {} THEN [q1 |-> q1, q2 |-> q2, s |-> <<>>] ELSE [q1 |-> q1, q2 |-> q2, s |-> CHOOSE s \in C : TRUE]
LRecsOfLine(S,ls) == {LRec(S, ls[i], ls[i+1]) : i \in {j \in 1..(Len(ls)-1) : ls[j] # ls[j+1]}}
OnLRec(r,p) == /\ OnLineH(r.s,p)
               /\ LET t1 == TS(r.s,r.q1) t2 == TS(r.s,r.q2) lo == Min2(t1,t2) hi == Max2(t1,t2) tt == T*L1(r.s)
                  IN (lo-tt)*p[3] <= Param(r.s,p)*K /\ Param(r.s,p)*K <= (hi+tt)*p[3]

\* ---- membership in the lifted result R = [pts, lines, polys]
InRArea(R,p) == \E i \in 1..Len(R.polys) :
                   \/ \E r \in R.polys[i] : OnRSeg(r,p)
                   \/ Cardinality({r \in R.polys[i] : RCrosses(r,p)}) % 2 = 1
InRLine(R,p) == \E r \in R.lines : OnLRec(r,p)
InRPoint(R,p) == p \in R.pts \/ InRLine(R,p) \/ InRArea(R,p)
InRFace(R,m,n) == \E i \in 1..Len(R.polys) : Cardinality({r \in R.polys[i] : RRayCross(m,n,r)}) % 2 = 1

\* ---- lineal coverage by interval union (scaled parameters along the edge's carrying segment)
Tol(s) == T*L1(s) + 1
HP(s,p) == (Param(s,p)*K) \div p[3]
Ivs(R,s) == {[lo |-> Min2(TS(s,r.q1),TS(s,r.q2)), hi |-> Max2(TS(s,r.q1),TS(s,r.q2))] :
               r \in {x \in R.lines : x.s # <<>> /\ Collinear(s,x.s) /\ NearLineS(s,x.q1) /\ NearLineS(s,x.q2)}}
RECURSIVE Cover(_,_,_,_)
Cover(x, goal, I, tol) == IF x >= goal - tol THEN TRUE
                          ELSE LET J == {i \in I : i.lo <= x + tol /\ i.hi > x + tol} IN
                               IF J = {} THEN FALSE
                               ELSE Cover(CHOOSE h \in {j.hi : j \in J} : \A j \in J : j.hi <= h, goal, I, tol)
EdgeLo(e) == Min2(HP(e.s,e.u), HP(e.s,e.v))
EdgeHi(e) == Max2(HP(e.s,e.u), HP(e.s,e.v))
LinesCover(R,e) == Cover(EdgeLo(e), EdgeHi(e), Ivs(R,e.s), Tol(e.s))
LinesTouch(R,e) == \E i \in Ivs(R,e.s) : Min2(i.hi, EdgeHi(e)) - Max2(i.lo, EdgeLo(e)) > 2*Tol(e.s)

Op(op,x,y) == CASE op = "union" -> x \/ y [] op = "inter" -> x /\ y [] op = "diff" -> x /\ ~y [] op = "symdiff" -> x # y

\* canonical type of a result with na polygons, nl linestrings, np points
ShapeOf(na,nl,np) ==
  IF na > 0 /\ nl = 0 /\ np = 0 THEN (IF na = 1 THEN "Polygon" ELSE "MultiPolygon")
  ELSE IF na = 0 /\ nl > 0 /\ np = 0 THEN (IF nl = 1 THEN "LineString" ELSE "MultiLineString")
  ELSE IF na = 0 /\ nl = 0 /\ np > 0 THEN (IF np = 1 THEN "Point" ELSE "MultiPoint")
  ELSE "GeometryCollection"

\* ga, gb: operand flats (union semantics); res: flat of the result with scaled ordinates; rtype: its type
CheckOverlay(ga,gb,op,res,rtype) ==
  LET arr == Arrangement(ga,gb)
      V == arr.V  E == arr.E  S == arr.S
      allq == {res.pts[i] : i \in 1..Len(res.pts)}
              \cup UNION {UNION {SeqSet(res.areas[i][k]) : k \in 1..Len(res.areas[i])} : i \in 1..Len(res.areas)}
      ambiguous == \E qq \in allq : Cardinality(LiftSet(V,qq)) > 1
      liftOK == \A i \in 1..Len(res.pts) : Cardinality(LiftSet(V,res.pts[i])) = 1
      L(q) == CHOOSE p \in LiftSet(V,q) : TRUE
      \* soft (collinear) nodes of rings are dropped, the ring is re-closed
      Hard(ls) == SelectSeq(ls, LAMBDA q : LiftSet(V,q) # {})
      LS0(ls) == LET h == Hard(ls) IN [j \in 1..Len(h) |-> L(h[j])]
      LS(ls) == LET h == LS0(ls) IN IF Len(h) > 0 /\ h[1] # h[Len(h)] THEN Append(h, h[1]) ELSE h
      R == [pts |-> {L(res.pts[i]) : i \in 1..Len(res.pts)},
            lines |-> UNION {LRecsOfLine(S, res.lines[i]) : i \in 1..Len(res.lines)},
            polys |-> [i \in 1..Len(res.areas) |-> UNION {RSegsOfLine(S, LS(res.areas[i][k])) : k \in 1..Len(res.areas[i])}]]
      allR == UNION {R.polys[i] : i \in 1..Len(R.polys)}
      lineOK == (\A r \in allR : r.s # <<>>) /\ (\A r \in R.lines : r.s # <<>>)
      \* every lifted ring segment is a union of arrangement edges (no invented edges)
      EP == {<<e.u,e.v>> : e \in E} \cup {<<e.v,e.u>> : e \in E}
      coverOK == \A r \in allR :
           LET P == {p \in V : OnLineH(r.s,p) /\ Betw(r.s,r.u,r.v,p)} IN
           \A p \in P : \A q \in P : (Before(r.s,p,q) /\ ~\E x \in P : Before(r.s,p,x) /\ Before(r.s,x,q)) => <<p,q>> \in EP
      \* expected membership with closure
      FA(e,n) == Op(op, FaceInArea(ga,Mid(e.u,e.v),n), FaceInArea(gb,Mid(e.u,e.v),n))
      EA(e) == Op(op, InG(ga,Mid(e.u,e.v)), InG(gb,Mid(e.u,e.v)))
      expE(e) == EA(e) \/ FA(e,NL(e.s)) \/ FA(e,NR(e.s))
      inc(p) == {e \in E : e.u = p \/ e.v = p}
      expV(p) == \/ Op(op, InG(ga,p), InG(gb,p))
                 \/ \E e \in inc(p) : expE(e)
                 \/ (inc(p) = {} /\ Op(op, LocArea(ga,p) = "I", LocArea(gb,p) = "I"))
      faceOK == \A e \in E : /\ InRFace(R,Mid(e.u,e.v),NL(e.s)) = FA(e,NL(e.s))
                             /\ InRFace(R,Mid(e.u,e.v),NR(e.s)) = FA(e,NR(e.s))
      \* an expected edge is in the areal part or covered by result lines - never both (no line inside/on an areal part)
      edgeOK == \A e \in E : LET inA == InRArea(R,Mid(e.u,e.v)) IN
                   IF expE(e) THEN (inA \/ LinesCover(R,e)) /\ ~(inA /\ LinesTouch(R,e))
                   ELSE ~inA /\ ~LinesTouch(R,e)
      vertOK == \A p \in V : InRPoint(R,p) = expV(p)
      \* result points only where not already covered by a higher-dimensional part
      ptsOK == \A p \in R.pts : ~InRLine(R,p) /\ ~InRArea(R,p)
      shapeOK == rtype = ShapeOf(Len(res.areas), Len(res.lines), Len(res.pts))
  IN IF ambiguous THEN "inc:ambiguous-lift" ELSE IF ~liftOK THEN "lift" ELSE IF ~lineOK THEN "line" ELSE IF ~coverOK THEN "cover"
     ELSE IF ~faceOK THEN "face" ELSE IF ~edgeOK THEN "edge" ELSE IF ~vertOK THEN "vertex"
     ELSE IF ~ptsOK THEN "redundant-point" ELSE IF ~shapeOK THEN "shape" ELSE "ok"
=============================================================================
