----------------------------- MODULE Trace_Decode -----------------------------
(* Trace validation for C08: one event per call of a decoder group on one     *)
(* untrusted input, executed in a sacrificial worker process.  The allowed    *)
(* outcomes are "err" and "ok"; "panic", "crash" (the worker died, e.g. a     *)
(* fatal out-of-memory) and "timeout" have no step.  A returned geometry that *)
(* was validated passes Validate and can be re-encoded in every format; the   *)
(* memory the process had to obtain while decoding is in proportion to the    *)
(* input length (cumulative allocation is logged but not judged: quadratic    *)
(* churn on deeply nested input reserves nothing).                            *)
EXTENDS Integers, Sequences, TLC, Json, IOUtils

Trace == ndJsonDeserialize(IOEnv.VTRACE)
S == 64
VARIABLES sh, l
vars == <<sh, l>>

\* memory newly obtained from the operating system during the call (the Go heap grows in 64 MiB arenas)
ReserveBound(len) == 134217728 + 2048 * len

Check(e) ==
  IF e.panic # "" THEN "panic:" \o e.panic
  ELSE IF e.outcome = "panic" THEN "panic:" \o e.which
  ELSE IF e.outcome = "crash" THEN "process-killed"
  ELSE IF e.outcome = "timeout" THEN "inc:timeout"      \* the property bounds memory, not time: counted, never a verdict
  ELSE IF e.outcome \notin {"ok","err"} THEN "unknown-outcome"
  ELSE IF ~e.validnil THEN "returned-geometry-fails-validate:" \o e.which
  ELSE IF ~e.reenc THEN "re-encode"
  ELSE IF e.sysgrow > ReserveBound(e.len) THEN "allocation-out-of-proportion"
  ELSE "ok"

Init == sh \in 1..S /\ l = sh
Next == /\ l <= Len(Trace) /\ l' = l + S /\ sh' = sh
        /\ LET r == Check(Trace[l]) IN IF r = "ok" THEN TRUE ELSE PrintT(ToJson([k |-> "V", l |-> l, r |-> r]))
Spec == Init /\ [][Next]_vars
Done == PrintT(ToJson([k |-> "DONE", distinct |-> TLCGet("distinct"), want |-> Len(Trace) + S]))
=============================================================================
