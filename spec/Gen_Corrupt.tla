----------------------------- MODULE Gen_Corrupt -----------------------------
(* (G) for C08: structured corruptions of the encodings written by the         *)
(* specification's WKB writer: every truncation, every header / count / type   *)
(* byte substituted, every 4-byte field overwritten with boundary counts.      *)
(* Each corrupted input is also read by the specification's reader, which must *)
(* terminate without leaving the input (the design-level statement of the      *)
(* memory property: a count is checked against what remains before it is used).*)
EXTENDS WKBFamily, Json
CONSTANT Step
ByteVals == {0, 1, 2, 7, 8, 127, 128, 255}
Counts == << <<0,0,0,0>>, <<1,0,0,0>>, <<255,255,255,127>>, <<0,0,0,128>>, <<255,255,255,255>> >>
Put(b, off, xs) == [k \in 1..Len(b) |-> IF k >= off /\ k < off + Len(xs) THEN xs[k - off + 1] ELSE b[k]]
VARIABLES ph, st
Init == ph = "start" /\ st = <<>>
Pick == ph = "start" /\ ph' = "mid" /\ \E i \in 1..Len(FamilySeq), le \in BOOLEAN : st' = <<i, le>>
Emit == /\ ph = "mid" /\ ph' = "case"
        /\ LET g == FamilySeq[st[1]] b == Enc(g, [k \in 1..NumEl(g) |-> st[2]]) IN
           \E off \in 1..Len(b), m \in 1..3, v \in 1..8 :
             LET c == CASE m = 1 -> SubSeq(b, 1, off - 1)
                        [] m = 2 -> Put(b, off, <<CHOOSE x \in ByteVals : Cardinality({y \in ByteVals : y < x}) = v - 1>>)
                        [] m = 3 -> Put(b, off, Counts[((v - 1) % 5) + 1])
                 r == Dec(c, 1)
             IN /\ (m = 1 => v = 1) /\ (m = 3 => v <= 5 /\ off + 3 <= Len(b))
                /\ (st[1] + off + v) % Step = 0
                /\ Assert(~r.ok \/ r.pos <= Len(c) + 1, "the reference reader left the input")
                /\ st' = <<st[1], st[2], off, m, v>>
                /\ PrintT(ToJson([k |-> "CASE", fmt |-> "wkb", bytes |-> c]))
Next == Pick \/ Emit
Spec == Init /\ [][Next]_<<ph, st>>
=============================================================================
