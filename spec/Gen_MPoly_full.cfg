SPECIFICATION Spec
CONSTANTS
  N = 2
  Step = 1
CHECK_DEADLOCK FALSE
