----------------------------- MODULE Gen_Envelope -----------------------------
(* (G) for C12: every pair (quick) / triple (thorough) of envelopes over the   *)
(* lattice 0..N, including equal, touching, nested, crossing and degenerate    *)
(* (point, horizontal, vertical) ones and the empty envelope, becomes a case   *)
(* for every method of the real Envelope type.                                 *)
EXTENDS Envelope, Json
CONSTANTS N, Triples
Boxes == {<<>>} \cup {<<x0,y0,x1,y1>> : x0 \in 0..N, y0 \in 0..N, x1 \in 0..N, y1 \in 0..N}
Envs == {e \in Boxes : e = <<>> \/ (e[1] <= e[3] /\ e[2] <= e[4])}
VARIABLES ph, st
Init == ph = "start" /\ st = <<>>
Pick == ph = "start" /\ ph' = "mid" /\ \E a \in Envs : st' = <<a>>
Emit == /\ ph = "mid" /\ ph' = "case"
        /\ \E b \in Envs, c \in (IF Triples THEN Envs ELSE {<<>>}) :
             /\ st' = <<st[1], b, c>>
             /\ PrintT(ToJson([k |-> "CASE", kind |-> "algebra", a |-> st[1], b |-> b, c |-> c]))
Next == Pick \/ Emit
Spec == Init /\ [][Next]_<<ph, st>>
=============================================================================
