SPECIFICATION Spec
CONSTANT MaxOps = 3
INVARIANT CtypeUniform ForceLaws ReverseInvolution
CHECK_DEADLOCK FALSE
