------------------------------ MODULE Equality ------------------------------
(* C18: ExactEquals by definition.                                           *)
(*   Eq(g,h)    structural identity of the trees (ordinate tokens equal,     *)
(*              -0 and +0 identified): exactly equality of the WKB encodings *)
(*   EqIO(g,h)  additionally: some bijection of collection / Multi* members  *)
(*              and of holes, either direction of a line, any start vertex   *)
(*              and either direction of a ring - and nothing else            *)
EXTENDS AbstractGeom, TLC

ZeroTok == "0000000000000000"
NegZeroTok == "8000000000000000"
Norm(t) == IF t = NegZeroTok THEN ZeroTok ELSE t
EqPt(p,q) == Len(p) = Len(q) /\ \A i \in 1..Len(p) : Norm(p[i]) = Norm(q[i])
EqLine(a,b) == Len(a) = Len(b) /\ \A i \in 1..Len(a) : EqPt(a[i], b[i])
EqPoly(a,b) == Len(a) = Len(b) /\ \A i \in 1..Len(a) : EqLine(a[i], b[i])
RECURSIVE Eq(_,_)
Eq(a,b) ==
  /\ a.t = b.t /\ a.ct = b.ct /\ Len(a.c) = Len(b.c)
  /\ CASE a.t = "Point" -> EqPt(a.c, b.c)
       [] a.t \in {"LineString","MultiPoint"} -> EqLine(a.c, b.c)
       [] a.t \in {"Polygon","MultiLineString"} -> EqPoly(a.c, b.c)
       [] a.t = "MultiPolygon" -> \A i \in 1..Len(a.c) : EqPoly(a.c[i], b.c[i])
       [] OTHER -> \A i \in 1..Len(a.c) : Eq(a.c[i], b.c[i])

RevSeq(s) == [i \in 1..Len(s) |-> s[Len(s)+1-i]]
Closed(l) == Len(l) >= 2 /\ EqPt(l[1], l[Len(l)])
\* b rotated by o: vertex i (0-based) of a against vertex (i+o) mod (n-1) of b
RotEq(a,b,o) == LET n == Len(a) IN \A i \in 0..(n-1) : EqPt(a[i+1], b[((i + o) % (n-1)) + 1])
\* curves: identity, reversal, and for rings (closed, and in this domain simple) any rotation in either direction
EqCurveIO(a,b) == /\ Len(a) = Len(b)
                  /\ \/ EqLine(a,b) \/ EqLine(a, RevSeq(b))
                     \/ (Closed(a) /\ Closed(b) /\ Len(a) >= 3 /\ \E o \in 1..(Len(a)-1) : RotEq(a,b,o) \/ RotEq(RevSeq(a),b,o))
\* is there a bijection between 1..n and 1..n relating every i to its image
RECURSIVE Match(_,_,_,_)
Match(R(_,_), level, n, S) == level > n \/ \E j \in S : R(level,j) /\ Match(R, level+1, n, S \ {j})
Bij(n, R(_,_)) == Match(R, 1, n, 1..n)
EqPolyIO(a,b) == /\ Len(a) = Len(b)
                 /\ (Len(a) = 0 \/ (EqCurveIO(a[1], b[1]) /\ Bij(Len(a)-1, LAMBDA i, j : EqCurveIO(a[i+1], b[j+1]))))
RECURSIVE EqIO(_,_)
EqIO(a,b) ==
  /\ a.t = b.t /\ a.ct = b.ct /\ Len(a.c) = Len(b.c)
  /\ CASE a.t = "Point" -> EqPt(a.c, b.c)
       [] a.t = "LineString" -> EqCurveIO(a.c, b.c)
       [] a.t = "Polygon" -> EqPolyIO(a.c, b.c)
       [] a.t = "MultiPoint" -> Bij(Len(a.c), LAMBDA i, j : EqPt(a.c[i], b.c[j]))
       [] a.t = "MultiLineString" -> Bij(Len(a.c), LAMBDA i, j : EqCurveIO(a.c[i], b.c[j]))
       [] a.t = "MultiPolygon" -> Bij(Len(a.c), LAMBDA i, j : EqPolyIO(a.c[i], b.c[j]))
       [] OTHER -> Bij(Len(a.c), LAMBDA i, j : EqIO(a.c[i], b.c[j]))
=============================================================================
