------------------------------- MODULE Gen_WKT -------------------------------
(* (G) for C05: re-spelt texts (keyword case, whitespace kinds, optional       *)
(* MultiPoint parentheses, exponent-form numerals) and texts with trailing     *)
(* tokens become cases for the real UnmarshalWKT, with the expected geometry.  *)
EXTENDS WKTFamily, Json
CONSTANT Step
VARIABLES ph, st
Init == ph = "start" /\ st = <<>>
Pick == /\ ph = "start" /\ ph' = "mid"
        /\ \E kw \in 1..3, n \in 1..5, bare \in BareModes, sp \in 1..Len(Seps), tight \in BOOLEAN : st' = <<kw, n, bare, sp, tight>>
Emit == /\ ph = "mid" /\ ph' = "case"
        /\ \E i \in 1..Len(FamilySeq), junk \in 0..2 :
             LET ts == Respell(FamilySeq[i], st[1], st[2], st[3])
                 txt == Join(ts, Seps[st[4]], st[5]) \o (IF junk = 0 THEN "" ELSE IF junk = 1 THEN " )" ELSE " 7")
             IN /\ (i + st[1] + st[2] + st[4] + junk) % Step = 0
                /\ st' = <<st, i, junk>>
                /\ PrintT(ToJson([k |-> "CASE", kind |-> "parse", text |-> txt,
                                  want |-> IF junk = 0 THEN ToJson(FamilySeq[i]) ELSE "error"]))
Next == Pick \/ Emit
Spec == Init /\ [][Next]_<<ph, st>>
=============================================================================
