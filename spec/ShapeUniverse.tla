------------------------------ MODULE ShapeUniverse ------------------------------
(* The small-scope universe: the shapes that exist on the lattice 0..N x 0..N, *)
(* as WKT for the real library.  Gen_Pairs emits every unordered pair of them  *)
(* (C01, C02, C09), Gen_Shapes every single one (C12-C15, C17).  It is where    *)
(* the degenerate configurations live that random sampling meets rarely:       *)
(* shared vertices, collinear overlap, an end point on an edge interior, a     *)
(* line along a polygon edge, equal shapes with different start vertices,      *)
(* touching at one point, doubled-back lines, duplicate points.                *)
(*   Kinds: "p" points, "s" segments, "t" triangles (both orientations by the  *)
(*   order of the vertex set), "l" two-segment polylines incl. doubling back,  *)
(*   "m" two-point MultiPoints, "q" axis-parallel rectangles, "h" the square   *)
(*   with a hole (needs N >= 3), "c" closed three-segment lines.               *)
EXTENDS Integers, Sequences, FiniteSets, TLC, Json, SequencesExt
CONSTANTS N, Kinds

Pts == {<<x,y>> : x \in 0..N, y \in 0..N}
Lt(p,q) == p[1] < q[1] \/ (p[1] = q[1] /\ p[2] < q[2])
Cross(o,a,b) == (a[1]-o[1])*(b[2]-o[2]) - (a[2]-o[2])*(b[1]-o[1])
S(p) == ToString(p[1]) \o " " \o ToString(p[2])
RECURSIVE Join(_)
Join(ps) == IF Len(ps) = 1 THEN S(ps[1]) ELSE S(ps[1]) \o "," \o Join(Tail(ps))

Points == IF "p" \in Kinds THEN {"POINT(" \o S(p) \o ")" : p \in Pts} ELSE {}
Segs   == IF "s" \in Kinds THEN {"LINESTRING(" \o Join(<<v[1],v[2]>>) \o ")" : v \in {w \in Pts \X Pts : Lt(w[1],w[2])}} ELSE {}
TriSet == {<<p,q,r>> \in Pts \X Pts \X Pts : Lt(p,q) /\ Lt(q,r) /\ Cross(p,q,r) # 0}
Tris   == IF "t" \in Kinds THEN {"POLYGON((" \o Join(<<t[1],t[2],t[3],t[1]>>) \o "))" : t \in TriSet} ELSE {}
MPts   == IF "m" \in Kinds THEN {"MULTIPOINT((" \o S(v[1]) \o "),(" \o S(v[2]) \o "))" : v \in {w \in Pts \X Pts : Lt(w[1],w[2])}} ELSE {}
Holed  == (IF "h" \in Kinds /\ N >= 3 THEN {"POLYGON((0 0,3 0,3 3,0 3,0 0),(1 1,1 2,2 2,2 1,1 1))", "POLYGON((0 0,3 0,3 3,0 3,0 0),(1 1,2 2,2 1,1 1))"} ELSE {})
          \cup (IF "h" \in Kinds /\ N >= 4 THEN {"POLYGON((0 0,4 0,0 4,0 0),(1 1,1 2,2 1,1 1))", "POLYGON((4 4,0 4,4 0,4 4),(3 3,3 2,2 3,3 3))",
                                                  "POLYGON((0 0,4 0,4 4,0 4,0 0),(1 1,1 2,2 1,1 1),(3 3,3 2,2 3,3 3))",
                                                  "MULTIPOLYGON(((0 0,4 0,0 4,0 0),(1 1,1 2,2 1,1 1)),((4 4,3 4,4 3,4 4)))"} ELSE {})
Closed == IF "c" \in Kinds THEN {"LINESTRING(" \o Join(<<t[1],t[2],t[3],t[1]>>) \o ")" : t \in TriSet} ELSE {}

RectSet == IF "q" \in Kinds THEN {"POLYGON((" \o Join(<< <<x0,y0>>, <<x1,y0>>, <<x1,y1>>, <<x0,y1>>, <<x0,y0>> >>) \o "))" :
                                   <<x0,x1,y0,y1>> \in {v \in (0..N) \X (0..N) \X (0..N) \X (0..N) : v[1] < v[2] /\ v[3] < v[4]}} ELSE {}
LineSet == IF "l" \in Kinds THEN {"LINESTRING(" \o Join(<<v[1],v[2],v[3]>>) \o ")" :
                                   v \in {w \in Pts \X Pts \X Pts : w[1] # w[2] /\ w[2] # w[3] /\ (Lt(w[1],w[3]) \/ w[1] = w[3])}} ELSE {}

MSet == IF "M" \in Kinds THEN {"MULTIPOINT(" \o Join(v) \o ")" : v \in {w \in (Pts \X Pts) \cup (Pts \X Pts \X Pts) \cup (Pts \X Pts \X Pts \X Pts) :
                                    \A a \in 1..(Len(w)-1) : Lt(w[a], w[a+1]) \/ w[a] = w[a+1]}} ELSE {}
L3Set == IF "L" \in Kinds THEN {"LINESTRING(" \o Join(v) \o ")" : v \in {w \in Pts \X Pts \X Pts \X Pts :
                                    w[1] # w[2] /\ w[2] # w[3] /\ w[3] # w[4] /\ (Lt(w[1],w[4]) \/ w[1] = w[4])}} ELSE {}
Shapes == SetToSeq(MSet \cup L3Set \cup Points \cup Segs \cup Tris \cup LineSet \cup MPts \cup RectSet \cup Holed \cup Closed)
=============================================================================
