------------------------------ MODULE Gen_MPoly ------------------------------
(* (G) for C03: EVERY unordered pair of lattice triangles on 0..N x 0..N as a  *)
(* two-member MultiPolygon, with every ring start of both members (disjoint,   *)
(* touching at a vertex - the origin included -, touching along an edge,       *)
(* overlapping, nested, equal), for the real Validate().                       *)
EXTENDS Integers, Sequences, FiniteSets, TLC, Json
CONSTANTS N, Step
Pts == {<<x,y>> : x \in 0..N, y \in 0..N}
Lt(p,q) == p[1] < q[1] \/ (p[1] = q[1] /\ p[2] < q[2])
Cross(o,a,b) == (a[1]-o[1])*(b[2]-o[2]) - (a[2]-o[2])*(b[1]-o[1])
TriSet == {t \in Pts \X Pts \X Pts : Lt(t[1],t[2]) /\ Lt(t[2],t[3]) /\ Cross(t[1],t[2],t[3]) # 0}
Idx(t) == t[1][1] + 3*t[1][2] + 5*t[2][1] + 7*t[2][2] + 11*t[3][1] + 13*t[3][2]
S(p) == ToString(p[1]) \o " " \o ToString(p[2])
Ring(t,k) == LET r == [i \in 1..3 |-> t[((i - 1 + k) % 3) + 1]] IN "((" \o S(r[1]) \o "," \o S(r[2]) \o "," \o S(r[3]) \o "," \o S(r[1]) \o "))"
VARIABLES ph, st
Init == ph = "start" /\ st = <<>>
Pick == ph = "start" /\ ph' = "mid" /\ \E t \in TriSet, k1 \in 0..2, k2 \in 0..2 : st' = <<t, k1, k2>>
Emit == /\ ph = "mid" /\ ph' = "case"
        /\ \E u \in {x \in TriSet : (x = st[1] \/ Lt(st[1][1], x[1]) \/ (st[1][1] = x[1] /\ (Lt(st[1][2], x[2]) \/ (st[1][2] = x[2] /\ Lt(st[1][3], x[3])))))
                                     /\ (Idx(x) + Idx(st[1]) + st[2] + st[3]) % Step = 0} :
             /\ st' = <<st[1], st[2], st[3], u>>
             /\ PrintT(ToJson([k |-> "CASE", kind |-> "geom", w |-> "MULTIPOLYGON(" \o Ring(st[1], st[2]) \o "," \o Ring(u, st[3]) \o ")"]))
Next == Pick \/ Emit
Spec == Init /\ [][Next]_<<ph, st>>
=============================================================================
