SPECIFICATION Spec
CONSTANT Step = 5
CHECK_DEADLOCK FALSE
