----------------------------- MODULE Trace_Purity -----------------------------
(* Trace validation for C10.  Each line is one history: the merged per-thread  *)
(* event buffers of a race-detector build running 2..16 goroutines over shared *)
(* values, followed - after a Restart event - by the same calls made by a      *)
(* fresh process.  Begin / End follow Purity.tla; a RaceReport event has no    *)
(* action.                                                                     *)
EXTENDS Integers, Sequences, FiniteSets, TLC, Json, IOUtils

Trace == ndJsonDeserialize(IOEnv.VTRACE)
VARIABLES h, i, store, pending, memo
vars == <<h, i, store, pending, memo>>
Report(r) == IF r = "ok" THEN TRUE ELSE PrintT(ToJson([k |-> "V", l |-> h, i |-> i, r |-> r]))
Ev == Trace[h].evs[i]
None == [op |-> "none"]
Put(f, k, v) == [x \in DOMAIN f \cup {k} |-> IF x = k THEN v ELSE f[x]]
\* the first digest seen for a shared value is its value for ever
Obs(st, ids, ds) == LET f[n \in 0..Len(ids)] == IF n = 0 THEN st ELSE (IF ids[n] \in DOMAIN f[n-1] THEN f[n-1] ELSE Put(f[n-1], ids[n], ds[n])) IN f[Len(ids)]
Same(st, ids, ds) == \A n \in 1..Len(ids) : st[ids[n]] = ds[n]

Init == h \in 1..Len(Trace) /\ i = 1 /\ store = [x \in {} |-> ""] /\ pending = [x \in {} |-> None] /\ memo = [x \in {} |-> ""]
Begin == /\ Ev.e = "Begin"
         /\ LET st == Obs(store, Ev.args, Ev.pre) IN
              /\ Report(IF Ev.t \in DOMAIN pending /\ pending[Ev.t] # None THEN "begin-while-pending"
                        ELSE IF ~Same(st, Ev.args, Ev.pre) THEN "operand-changed-before:" \o Ev.op ELSE "ok")
              /\ store' = st
         /\ pending' = Put(pending, Ev.t, [op |-> Ev.op, args |-> Ev.args, pre |-> Ev.pre])
         /\ UNCHANGED memo
End == /\ Ev.e = "End" /\ Ev.t \in DOMAIN pending /\ pending[Ev.t] # None
       /\ LET p == pending[Ev.t] k == <<p.op, p.pre>> IN
            /\ Report(IF Ev.post # p.pre THEN "operation-changed-its-operand:" \o p.op
                      ELSE IF ~Same(store, p.args, Ev.post) THEN "operand-changed-during:" \o p.op
                      ELSE IF k \in DOMAIN memo /\ memo[k] # Ev.res THEN "result-not-deterministic:" \o p.op
                      ELSE "ok")
            /\ memo' = IF k \in DOMAIN memo THEN memo ELSE Put(memo, k, Ev.res)
       /\ pending' = Put(pending, Ev.t, None)
       /\ UNCHANGED store
\* a fresh process repeats the calls: values are rebuilt (same digests expected), results must hit the same memo entries
Restart == /\ Ev.e = "Restart" /\ pending' = [x \in {} |-> None] /\ UNCHANGED <<store, memo>>
Race == /\ Ev.e = "RaceReport" /\ Report("data-race-reported") /\ UNCHANGED <<store, pending, memo>>
Step == i <= Len(Trace[h].evs) /\ i' = i + 1 /\ h' = h /\ (Begin \/ End \/ Restart \/ Race)
Spec == Init /\ [][Step]_vars
RECURSIVE Total(_)
Total(k) == IF k = 0 THEN 0 ELSE Len(Trace[k].evs) + 1 + Total(k-1)
Done == PrintT(ToJson([k |-> "DONE", distinct |-> TLCGet("distinct"), want |-> Total(Len(Trace))]))
=============================================================================
