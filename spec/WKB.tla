-------------------------------- MODULE WKB --------------------------------
(* C04: Well Known Binary as a recursive-descent reader and a writer over    *)
(* byte sequences.  Ordinates are opaque tokens: 16 hexadecimal digits of the*)
(* IEEE-754 bits, most significant first; the only thing the format needs to *)
(* know about them is whether a token is a NaN (the empty Point convention)  *)
(* and how to reverse its bytes.  A geometry is [t, ct, c]:                  *)
(*   Point c = <<tok..>> (<<>> when empty); LineString <<pt..>>; Polygon     *)
(*   <<ring..>>; MultiPoint <<pt or <<>> ..>>; MultiLineString <<line..>>;   *)
(*   MultiPolygon <<poly..>>; GeometryCollection <<geometry..>>              *)
EXTENDS Integers, Sequences, FiniteSets, TLC

HexDigits == <<"0","1","2","3","4","5","6","7","8","9","a","b","c","d","e","f">>
HexByte(b) == HexDigits[(b \div 16) + 1] \o HexDigits[(b % 16) + 1]
HexVal(ch) == CHOOSE i \in 0..15 : HexDigits[i+1] = ch
ByteAt(tk,i) == 16 * HexVal(SubSeq(tk, 2*i-1, 2*i-1)) + HexVal(SubSeq(tk, 2*i, 2*i))   \* i-th byte (1..8), most significant first
TokBytesBE(tk) == [i \in 1..8 |-> ByteAt(tk,i)]
Reverse(s) == [i \in 1..Len(s) |-> s[Len(s)+1-i]]
TokBytes(tk, le) == IF le THEN Reverse(TokBytesBE(tk)) ELSE TokBytesBE(tk)
\* token of the 8 bytes at pos
TokAt(b,pos,le) == LET f[i \in 0..8] == IF i = 0 THEN "" ELSE f[i-1] \o HexByte(IF le THEN b[pos+8-i] ELSE b[pos+i-1]) IN f[8]
IsNaNTok(tk) == /\ SubSeq(tk,1,1) \in {"7","f"} /\ SubSeq(tk,2,3) = "ff"
                /\ SubSeq(tk,4,16) # "0000000000000"
NaNTok == "7ff8000000000001"

TypeNames == <<"Point","LineString","Polygon","MultiPoint","MultiLineString","MultiPolygon","GeometryCollection">>
CtNames == <<"XY","XYZ","XYM","XYZM">>
TypeCode(t) == CHOOSE i \in 1..7 : TypeNames[i] = t
CtCode(ct) == (CHOOSE i \in 1..4 : CtNames[i] = ct) - 1
DimOf(ct) == IF ct = "XY" THEN 2 ELSE IF ct = "XYZM" THEN 4 ELSE 3

\* ---------------------------------------------------------------- reader
U32(b,pos,le) == IF le THEN b[pos] + 256*b[pos+1] + 65536*b[pos+2] + 16777216*(b[pos+3] % 128)
                 ELSE b[pos+3] + 256*b[pos+2] + 65536*b[pos+1] + 16777216*(b[pos] % 128)
U32Big(b,pos,le) == (IF le THEN b[pos+3] ELSE b[pos]) >= 128      \* does not fit TLC's integers: certainly more than the input holds
Fail(pos) == [ok |-> FALSE, g |-> <<>>, pos |-> pos]

RECURSIVE ReadToks(_,_,_,_)
ReadToks(b,pos,n,le) == IF n = 0 THEN <<>> ELSE <<TokAt(b,pos,le)>> \o ReadToks(b,pos+8,n-1,le)
RECURSIVE ReadPts(_,_,_,_,_)
ReadPts(b,pos,n,d,le) == IF n = 0 THEN <<>> ELSE <<ReadToks(b,pos,d,le)>> \o ReadPts(b,pos+8*d,n-1,d,le)
\* counted point sequence -> [ok, v, pos]
ReadSeq(b,pos,d,le) ==
  IF pos + 3 > Len(b) \/ U32Big(b,pos,le) THEN [ok |-> FALSE, v |-> <<>>, pos |-> pos]
  ELSE LET n == U32(b,pos,le) IN
       IF n > (Len(b) - (pos + 3)) \div (8*d) THEN [ok |-> FALSE, v |-> <<>>, pos |-> pos]      \* count checked against what remains
       ELSE [ok |-> TRUE, v |-> ReadPts(b,pos+4,n,d,le), pos |-> pos + 4 + 8*d*n]
RECURSIVE ReadRings(_,_,_,_,_)
ReadRings(b,pos,n,d,le) == IF n = 0 THEN [ok |-> TRUE, v |-> <<>>, pos |-> pos]
   ELSE LET r == ReadSeq(b,pos,d,le) IN IF ~r.ok THEN [ok |-> FALSE, v |-> <<>>, pos |-> pos]
        ELSE LET rest == ReadRings(b,r.pos,n-1,d,le) IN [ok |-> rest.ok, v |-> <<r.v>> \o rest.v, pos |-> rest.pos]

RECURSIVE Dec(_,_)
RECURSIVE DecMany(_,_,_)
DecMany(b,pos,n) == IF n = 0 THEN [ok |-> TRUE, v |-> <<>>, pos |-> pos]
   ELSE LET r == Dec(b,pos) IN IF ~r.ok THEN [ok |-> FALSE, v |-> <<>>, pos |-> pos]
        ELSE LET rest == DecMany(b,r.pos,n-1) IN [ok |-> rest.ok, v |-> <<r.g>> \o rest.v, pos |-> rest.pos]
Dec(b,pos) ==
  IF pos + 4 > Len(b) \/ b[pos] \notin {0,1} THEN Fail(pos) ELSE
  LET le == b[pos] = 1 IN
  IF U32Big(b,pos+1,le) THEN Fail(pos) ELSE
  LET code == U32(b,pos+1,le) tc == code % 1000 cc == code \div 1000 IN
  IF tc \notin 1..7 \/ cc \notin 0..3 THEN Fail(pos) ELSE
  LET t == TypeNames[tc] ct == CtNames[cc+1] d == DimOf(ct) p0 == pos + 5
      Ret(c,p) == [ok |-> TRUE, g |-> [t |-> t, ct |-> ct, c |-> c], pos |-> p]
      Count == IF p0 + 3 > Len(b) \/ U32Big(b,p0,le) THEN -1 ELSE U32(b,p0,le)
  IN CASE tc = 1 -> (IF p0 + 8*d - 1 > Len(b) THEN Fail(pos)
                     ELSE LET tk == ReadToks(b,p0,d,le) nx == IsNaNTok(tk[1]) ny == IsNaNTok(tk[2]) IN
                          IF nx /\ ny THEN Ret(<<>>, p0 + 8*d) ELSE IF nx \/ ny THEN Fail(pos) ELSE Ret(tk, p0 + 8*d))
       [] tc = 2 -> (LET r == ReadSeq(b,p0,d,le) IN IF r.ok THEN Ret(r.v, r.pos) ELSE Fail(pos))
       [] tc = 3 -> (IF Count < 0 \/ Count > Len(b) THEN Fail(pos)
                     ELSE LET r == ReadRings(b,p0+4,Count,d,le) IN IF r.ok THEN Ret(r.v, r.pos) ELSE Fail(pos))
       [] OTHER -> (IF Count < 0 \/ Count > Len(b) THEN Fail(pos)
                    ELSE LET r == DecMany(b,p0+4,Count) IN
                         IF ~r.ok THEN Fail(pos)
                         ELSE IF tc = 4 /\ \E i \in 1..Len(r.v) : r.v[i].t # "Point" THEN Fail(pos)
                         ELSE IF tc = 5 /\ \E i \in 1..Len(r.v) : r.v[i].t # "LineString" THEN Fail(pos)
                         ELSE IF tc = 6 /\ \E i \in 1..Len(r.v) : r.v[i].t # "Polygon" THEN Fail(pos)
                         ELSE IF \E i \in 1..Len(r.v) : r.v[i].ct # ct THEN Fail(pos)
                         ELSE IF tc = 7 THEN Ret(r.v, r.pos)
                         ELSE Ret([i \in 1..Len(r.v) |-> r.v[i].c], r.pos))

\* ---------------------------------------------------------------- writer
U32B(n, le) == LET be == <<(n \div 16777216) % 256, (n \div 65536) % 256, (n \div 256) % 256, n % 256>> IN IF le THEN Reverse(be) ELSE be
RECURSIVE FlatB(_)
FlatB(ss) == IF ss = <<>> THEN <<>> ELSE Head(ss) \o FlatB(Tail(ss))
PtB(p, le) == FlatB([i \in 1..Len(p) |-> TokBytes(p[i], le)])
SeqB(ps, le) == U32B(Len(ps), le) \o FlatB([i \in 1..Len(ps) |-> PtB(ps[i], le)])
Hdr(t, ct, le) == <<IF le THEN 1 ELSE 0>> \o U32B(1000*CtCode(ct) + TypeCode(t), le)
\* number of elements (each carries its own byte order mark), in pre-order
RECURSIVE NumEl(_)
NumEl(g) == CASE g.t \in {"Point","LineString","Polygon"} -> 1
              [] g.t \in {"MultiPoint","MultiLineString","MultiPolygon"} -> 1 + Len(g.c)
              [] OTHER -> 1 + (LET f[i \in 0..Len(g.c)] == IF i = 0 THEN 0 ELSE f[i-1] + NumEl(g.c[i]) IN f[Len(g.c)])
\* Enc(g, bos): bos = sequence of byte orders (TRUE = little endian), one per element in pre-order
RECURSIVE Enc(_,_)
EncLeaf(t, ct, c, le) ==
  Hdr(t, ct, le) \o
  (CASE t = "Point" -> (IF c = <<>> THEN FlatB([i \in 1..DimOf(ct) |-> TokBytes(NaNTok, le)]) ELSE PtB(c, le))
     [] t = "LineString" -> SeqB(c, le)
     [] t = "Polygon" -> U32B(Len(c), le) \o FlatB([i \in 1..Len(c) |-> SeqB(c[i], le)]))
Member(g) == CASE g.t = "MultiPoint" -> "Point" [] g.t = "MultiLineString" -> "LineString" [] g.t = "MultiPolygon" -> "Polygon"
Enc(g, bos) ==
  IF g.t \in {"Point","LineString","Polygon"} THEN EncLeaf(g.t, g.ct, g.c, bos[1])
  ELSE IF g.t # "GeometryCollection"
       THEN Hdr(g.t, g.ct, bos[1]) \o U32B(Len(g.c), bos[1]) \o FlatB([i \in 1..Len(g.c) |-> EncLeaf(Member(g), g.ct, g.c[i], bos[i+1])])
  ELSE LET off[i \in 0..Len(g.c)] == IF i = 0 THEN 1 ELSE off[i-1] + NumEl(g.c[i]) IN
       Hdr(g.t, g.ct, bos[1]) \o U32B(Len(g.c), bos[1])
          \o FlatB([i \in 1..Len(g.c) |-> Enc(g.c[i], SubSeq(bos, off[i-1]+1, off[i]))])
=============================================================================
