---------------------------- MODULE MC_StructOps ----------------------------
(* (M) for C16: from every start geometry, every sequence of at most MaxOps   *)
(* operations keeps the coordinate type uniform (every node reports the       *)
(* root's type, every vertex has exactly the tokens of that type), Force      *)
(* changes only what it says, and Reverse is an involution.                   *)
EXTENDS StructFamily
CONSTANT MaxOps
VARIABLES g, n
Init == n = 0 /\ \E i \in 1..Len(StartSeq) : g = StartSeq[i]
Acts == {"force2d","reverse","swapxy","asmulti","mkgc1"}
Step == /\ n < MaxOps /\ n' = n + 1
        /\ \/ \E a \in Acts : g' = Apply(a, <<>>, g)
           \/ \E ct \in CTs : g' = Force(g, ct)
           \/ \E k \in 1..Len(Others("")) : g.t # "GeometryCollection" /\ g' = MkGC(<<g, Others("")[k]>>)
           \/ \E k \in 1..Len(Others(g.t)) : g.t \in {"Point","LineString","Polygon"} /\ g' = MkMulti(<<g, Others(g.t)[k]>>)
Spec == Init /\ [][Step]_<<g,n>>
Dim(ct) == 2 + (IF HasZ(ct) THEN 1 ELSE 0) + (IF HasM(ct) THEN 1 ELSE 0)
VertsOK(x) == LET vs == AllVerts(x) IN \A i \in 1..Len(vs) : Len(vs[i]) = Dim(x.ct)
CtypeUniform == UniformCt(g, g.ct) /\ VertsOK(g)
ForceLaws == \A ct \in CTs : LET f == Force(g, ct) IN
   /\ UniformCt(f, ct) /\ VertsOK(f)
   /\ SameTree(Force(f, ct), f)
   /\ SameTree(Force(g, "XY"), Force(f, "XY"))                         \* XY never changes
   /\ ((HasZ(ct) => HasZ(g.ct)) /\ (HasM(ct) => HasM(g.ct)) => SameTree(Force(Force(g,ct), g.ct), Force(Force(Force(g,ct), g.ct), g.ct)))
ReverseInvolution == SameTree(Reverse(Reverse(g)), g)
=============================================================================
