SPECIFICATION Spec
CONSTANTS
  Pool <- MCPool
  Queries <- MCQueries
  MaxN = 4
INVARIANT TreeInv NoRevisit OnlyHits PrioOrder Complete StopIsFinal
CHECK_DEADLOCK FALSE
