------------------------------ MODULE Gen_Pairs ------------------------------
(* (G) for the binary geometric families (C01 overlay, C02 relate, C09         *)
(* distance): EVERY unordered pair (and every shape with itself) of the shapes *)
(* of ShapeUniverse, emitted as WKT for the real library.                      *)
EXTENDS ShapeUniverse
VARIABLES ph, i, j
Init == ph = "start" /\ i = 0 /\ j = 0
Pick == ph = "start" /\ ph' = "mid" /\ j' = 0 /\ \E a \in 1..Len(Shapes) : i' = a
Emit == /\ ph = "mid" /\ ph' = "case" /\ i' = i
        /\ \E b \in i..Len(Shapes) :
             /\ j' = b
             /\ PrintT(ToJson([k |-> "CASE", wa |-> Shapes[i], wb |-> Shapes[b], N |-> N]))
Next == Pick \/ Emit
Spec == Init /\ [][Next]_<<ph, i, j>>
=============================================================================
