SPECIFICATION Spec
CONSTANTS
  N = 2
  Kinds = {"p","s","t","l","m","q","c","M","L"}
CHECK_DEADLOCK FALSE
